/-
Helper definitions and lemmas of the source tie for C08 (Props/SrcC08.lean): the loop rule for a loop that leaves the
function on the first failing test, what `_equals_impl` computes on an instance given with its `__dict__`, the embedding
of the tree model into the Python objects `==` sees, and facts about the stated semantics of `==` (Py/PrimC08.lean).
-/
import HtmlVerif.Lemmas.SrcTie
import HtmlVerif.Model.Equality
import HtmlVerif.Model.Json
import HtmlVerif.Py.PrimC08
import HtmlVerif.Generated.Src

namespace HtmlVerif.SrcTie
open HtmlVerif HtmlVerif.Py HtmlVerif.Generated.Src

/-! ### a loop whose body returns from the function as soon as a test fails -/

/-- `all(t(c) for c in l)` in the exception monad: stops at the first `False` or the first exception -/
def allOk {γ : Type} (t : γ → PyM Bool) : List γ → PyM Bool
  | [] => .ok true
  | c :: r =>
    match t c with
    | .ok true => allOk t r
    | .ok false => .ok false
    | .error e => .error e

/-- whatever the loop body is: if on every pass (in a state whose "return value" slot is still empty) it goes on when
    the test `t` holds, leaves the loop with the slot set to `rf` when it does not, and raises what the test raises, then
    the loop followed by a continuation that reads only the slot is `allOk t` followed by that continuation -/
theorem forIn_all_k {α γ τ υ β : Type} (e : γ → α) (l : List γ)
    (f : α → Option τ × υ → PyM (ForInStep (Option τ × υ))) (t : γ → PyM Bool) (rf : τ)
    (init : Option τ × υ) (h0 : init.1 = none)
    (hstep : ∀ c ∈ l, ∀ s : Option τ × υ, s.1 = none →
      match t c with
      | .ok true => ∃ s', f (e c) s = .ok (.yield s') ∧ s'.1 = none
      | .ok false => ∃ s', f (e c) s = .ok (.done s') ∧ s'.1 = some rf
      | .error er => f (e c) s = .error er)
    (k : Option τ × υ → PyM β) (k' : Option τ → PyM β) (hk : ∀ s, k s = k' s.1) :
    (forIn (l.map e) init f >>= k)
      = match allOk t l with
        | .ok true => k' none
        | .ok false => k' (some rf)
        | .error er => .error er := by
  induction l generalizing init with
  | nil => simp only [List.map_nil, List.forIn_nil, allOk, pure_eq_ok, ok_bind, hk, h0]
  | cons c r ih =>
    have hs := hstep c (by simp) init h0
    simp only [List.map_cons, List.forIn_cons, allOk]
    cases htc : t c with
    | error er => rw [htc] at hs; simp only at hs; rw [hs]; rfl
    | ok b =>
      cases b with
      | true =>
        rw [htc] at hs
        obtain ⟨s', h1, h2⟩ := hs
        simp only [h1, ok_bind]
        exact ih s' h2 (fun c' hc' s hs => hstep c' (by simp [hc']) s hs)
      | false =>
        rw [htc] at hs
        obtain ⟨s', h1, h2⟩ := hs
        simp only [h1, ok_bind, pure_eq_ok, hk, h2]

theorem allOk_all {γ : Type} (t : γ → PyM Bool) (p : γ → Bool) (l : List γ) (h : ∀ c ∈ l, t c = .ok (p c)) :
    allOk t l = .ok (l.all p) := by
  induction l with
  | nil => rfl
  | cons c r ih =>
    have hc := h c (by simp)
    have ihr := ih (fun c' hc' => h c' (by simp [hc']))
    simp only [allOk, hc, List.all_cons]
    cases p c <;> simp [ihr]

/-! ### `_equals_impl(x, y)` on an instance `x` given with its `__dict__` -/

/-- the dispatch over the translated `__eq__` methods, as the translation of `_equals_impl` passes it to `==` -/
abbrev eqD (G : Globals) (fuel : Nat) : PVal → PVal → PyM PVal :=
  eqDispatch (Tag_eq G fuel) (TagList_eq G fuel) (HTMLDependency_eq G fuel)

/-- `getattr(x, key, None) == getattr(y, key, None)` for the key of one `__dict__` entry of `x` -/
def fieldTest (objEq : PVal → PVal → PyM PVal) (x y : PVal) (kv : String × PVal) : PyM Bool := do
  let a ← pyGetAttrD x (.str kv.1.toList) .none
  let b ← pyGetAttrD y (.str kv.1.toList) .none
  pyEqWith objEq a b

/-- `_equals_impl(x, y)` for `x` an instance of class `c` with `__dict__` `fs` -/
def equalsSpec (objEq : PVal → PVal → PyM PVal) (c : String) (fs : List (String × PVal)) (y : PVal) : PyM PVal :=
  if isInstanceTypeOf y (.obj c fs) then
    if fs.any (fun f => pseudoField f.1) then .error .unsupported
    else match allOk (fieldTest objEq (.obj c fs) y) fs with
      | .ok b => .ok (.bool b)
      | .error e => .error e
  else .ok (.bool false)

/-! ### the Python objects `==` sees -/

def embEKv (d : List (Str × Str)) : PVal := .dict (d.map fun kv => (kv.1, .str kv.2))
def embEKvs (ds : List (List (Str × Str))) : PVal := .list (ds.map embEKv)

/-- `source=` as stored: None, `{"href": …}`, `{"subdir": …}` or `{"subdir": …, "package": …}` -/
def embESource : DepSource → PVal
  | .none => .none
  | .href h => .dict [("href".toList, .str h)]
  | .subdir none d _ => .dict [("subdir".toList, .str d)]
  | .subdir (some p) d _ => .dict [("subdir".toList, .str d), ("package".toList, .str p)]

/-- a `packaging` Version: its text and its rank in packaging's order -/
def embEVersion (d : DepInfo) : PVal := .obj "Version" [("__str__", .str d.version), ("rank", .int d.vrank)]

/-- a TagList with the given `data` -/
def eqTagList (l : List PVal) : PVal := .obj "TagList" [("data", .list l)]

mutual
  /-- a node as the Python object `==` sees: every library object with its whole `__dict__`, in attribute-creation
      order (Tag: name, add_ws, attrs, children, prev_displayhook; TagList: data; HTMLDependency: name, version, source,
      script, stylesheet, meta, all_files, head); the harness's helper objects as instances of their value classes;
      un-expanded tagifiable objects as instances of a foreign class (not covered by the stated semantics of `==`) -/
  def embE : Node → PVal
    | .tag name ws attrs kids =>
      .obj "Tag" [("name", .str name), ("add_ws", .bool ws), ("attrs", embAttrs attrs),
                  ("children", eqTagList (embEs kids)), ("prev_displayhook", .none)]
    | .text s => .str s
    | .html s => .html s
    | .robj s => .obj "EqReprObj" [("s", .str s)]
    | .mnode n => .obj "EqMeta" [("n", .int n)]
    | .dep d hh head =>
      .obj "HTMLDependency" [("name", .str d.name), ("version", embEVersion d), ("source", embESource d.source),
        ("script", embEKvs d.script), ("stylesheet", embEKvs d.stylesheet), ("meta", embEKvs d.metas),
        ("all_files", .bool d.allFiles), ("head", if hh then eqTagList (embEs head) else .none)]
    | .tobjL _ _ => .obj "TagifiableObj" [("tagify", .none)]
    | .tobj1 _ _ => .obj "TagifiableObj" [("tagify", .none)]
  def embEs : Nodes → List PVal
    | .nil => []
    | .cons h t => embE h :: embEs t
end

def Nodes.isNil : Nodes → Bool
  | .nil => true
  | _ => false

mutual
  /-- the trees the tie for `==` speaks about: no un-expanded tagifiable object (those compare by identity, which the
      fragment does not have), and a dependency without `head=` has no head nodes -/
  def eqCov : Node → Bool
    | .tag _ _ _ k => eqCovKids k
    | .dep _ hh k => eqCovKids k && (hh || Nodes.isNil k)
    | .tobjL _ _ => false
    | .tobj1 _ _ => false
    | _ => true
  def eqCovKids : Nodes → Bool
    | .nil => true
    | .cons h t => eqCov h && eqCovKids t
end

mutual
  /-- fuel that suffices for `a == b` with `a` on the left: four levels per nesting level of library objects
      (`__eq__`, `_equals_impl`, `TagList.__eq__`, `_equals_impl`) -/
  def eqFuel : Node → Nat
    | .tag _ _ _ k => eqFuelKids k + 4
    | .dep _ _ k => eqFuelKids k + 4
    | _ => 0
  def eqFuelKids : Nodes → Nat
    | .nil => 0
    | .cons h t => max (eqFuel h) (eqFuelKids t)
end

theorem embEs_length (k : Nodes) : (embEs k).length = k.length := by
  induction k using Nodes.rec (motive_1 := fun _ => True) with
  | nil => rfl
  | cons h t _ ih => simp [embEs, Nodes.length, ih]
  | _ => trivial

theorem eqvKids_length (k k' : Nodes) (h : k.eqvKids k' = true) : k.length = k'.length := by
  induction k using Nodes.rec (motive_1 := fun _ => True) generalizing k' with
  | nil => cases k' <;> simp_all [Nodes.eqvKids, Nodes.length]
  | cons x t _ ih =>
    cases k' with
    | nil => simp [Nodes.eqvKids] at h
    | cons y u =>
      simp only [Nodes.eqvKids, Bool.and_eq_true] at h
      simp [Nodes.length, ih u h.2]
  | _ => trivial

/-! ### the stated semantics of `==` on the shapes the embedding produces -/

theorem pyEqWith_str_str (o) (x y : Str) : pyEqWith o (.str x) (.str y) = .ok (x == y) := rfl
theorem pyEqWith_bool_bool (o) (x y : Bool) : pyEqWith o (.bool x) (.bool y) = .ok (x == y) := by
  cases x <;> cases y <;> rfl
theorem pyEqWith_none_none (o) : pyEqWith o .none .none = .ok true := rfl
theorem pyEqWith_list_list (o) (xs ys : List PVal) :
    pyEqWith o (.list xs) (.list ys) = if xs.length == ys.length then pyEqListWith o xs ys else .ok false := by
  rw [pyEqWith]; rfl
theorem pyEqWith_dict_dict (o) (xs ys : List (Str × PVal)) :
    pyEqWith o (.dict xs) (.dict ys) = if xs.length == ys.length then pyEqDictWith o xs ys else .ok false := by
  rw [pyEqWith]; rfl

/-- stored attribute values: text equality whatever the marks -/
theorem pyEqWith_val (o) (v w : AttrVal) : pyEqWith o (embVal v) (embVal w) = .ok (v.str == w.str) := by
  cases v <;> cases w <;> rfl

theorem pyEqDict_attrs (o) (a b : Attrs) :
    pyEqDictWith o (a.map fun kv => (kv.1, embVal kv.2)) (b.map fun kv => (kv.1, embVal kv.2))
      = .ok (a.all fun kv => match alookup kv.1 b with
          | some v => kv.2.str == v.str
          | none => false) := by
  induction a with
  | nil => rfl
  | cons x r ih =>
    obtain ⟨k, v⟩ := x
    simp only [List.map_cons, pyEqDictWith, dictGet_emb, List.all_cons]
    cases alookup k b with
    | none => rfl
    | some w =>
      simp only [Option.map_some, pyEqWith_val, ok_bind]
      cases v.str == w.str
      · rfl
      · simpa using ih

/-- `attrs == attrs`: dict equality, values by text -/
theorem pyEqWith_attrs (o) (a b : Attrs) : pyEqWith o (embAttrs a) (embAttrs b) = .ok (attrsEqv a b) := by
  simp only [embAttrs, pyEqWith_dict_dict, List.length_map, pyEqDict_attrs]
  unfold attrsEqv
  cases a.length == b.length
  · simp
  · simp only [if_true, Bool.true_and]
    congr 2

theorem pyEqDict_kv (o) (a b : List (Str × Str)) :
    pyEqDictWith o (a.map fun kv => (kv.1, PVal.str kv.2)) (b.map fun kv => (kv.1, PVal.str kv.2))
      = .ok (a.all fun kv => alookup kv.1 b == some kv.2) := by
  have hg : ∀ k, Py.dictGet? k (b.map fun kv => (kv.1, PVal.str kv.2)) = (alookup k b).map PVal.str := by
    intro k
    induction b with
    | nil => rfl
    | cons x t ih =>
      obtain ⟨k', v'⟩ := x
      simp only [List.map_cons, Py.dictGet?, alookup]
      split <;> simp_all
  induction a with
  | nil => rfl
  | cons x r ih =>
    obtain ⟨k, v⟩ := x
    simp only [List.map_cons, pyEqDictWith, hg, List.all_cons]
    cases alookup k b with
    | none => rfl
    | some w =>
      simp only [Option.map_some, pyEqWith_str_str, ok_bind]
      by_cases hvw : v = w
      · subst hvw; simpa using ih
      · have : (some w == some v) = false := by simp [Ne.symm hvw]
        simp [hvw, this]

theorem pyEqWith_ekv (o) (a b : List (Str × Str)) : pyEqWith o (embEKv a) (embEKv b) = .ok (kvDictEqv a b) := by
  simp only [embEKv, pyEqWith_dict_dict, List.length_map, kvDictEqv, pyEqDict_kv]
  cases a.length == b.length <;> simp

theorem kvDictsEqv_length (a b : List (List (Str × Str))) (h : kvDictsEqv a b = true) : a.length = b.length := by
  induction a generalizing b with
  | nil => cases b <;> simp_all [kvDictsEqv]
  | cons x r ih =>
    cases b with
    | nil => simp [kvDictsEqv] at h
    | cons y u =>
      simp only [kvDictsEqv, Bool.and_eq_true] at h
      simp [ih u h.2]

theorem pyEqList_kvs (o) (a b : List (List (Str × Str))) :
    pyEqListWith o (a.map embEKv) (b.map embEKv) = .ok (kvDictsEqv a b) := by
  induction a generalizing b with
  | nil => cases b <;> rfl
  | cons x r ih =>
    cases b with
    | nil => rfl
    | cons y u =>
      simp only [List.map_cons, pyEqListWith, pyEqWith_ekv, ok_bind, kvDictsEqv]
      cases kvDictEqv x y
      · rfl
      · simpa using ih u

theorem pyEqWith_ekvs (o) (a b : List (List (Str × Str))) : pyEqWith o (embEKvs a) (embEKvs b) = .ok (kvDictsEqv a b) := by
  simp only [embEKvs, pyEqWith_list_list, List.length_map, pyEqList_kvs]
  by_cases h : a.length = b.length
  · simp [h]
  · have : kvDictsEqv a b = false := by
      cases hq : kvDictsEqv a b with
      | false => rfl
      | true => exact absurd (kvDictsEqv_length a b hq) h
    simp [h, this]

theorem pyEqWith_source (o) (a b : DepSource) : pyEqWith o (embESource a) (embESource b) = .ok (sourceEqv a b) := by
  cases a with
  | none => cases b with
    | none => rfl
    | href h => rfl
    | subdir p d x => cases p <;> rfl
  | href h => cases b with
    | none => rfl
    | href h' =>
      simp [embESource, pyEqWith_dict_dict, pyEqDictWith, Py.dictGet?, sourceEqv, pyEqWith_str_str]
      by_cases e : h = h' <;> simp [e]
    | subdir p d x =>
      cases p <;> simp [embESource, pyEqWith_dict_dict, pyEqDictWith, Py.dictGet?, sourceEqv]
  | subdir p d x => cases b with
    | none => cases p <;> rfl
    | href h' => cases p <;> simp [embESource, pyEqWith_dict_dict, pyEqDictWith, Py.dictGet?, sourceEqv]
    | subdir p' d' x' =>
      cases p with
      | none =>
        cases p' with
        | none =>
          simp [embESource, pyEqWith_dict_dict, pyEqDictWith, Py.dictGet?, sourceEqv, pyEqWith_str_str]
          by_cases e : d = d' <;> simp [e]
        | some q' => simp [embESource, pyEqWith_dict_dict, sourceEqv]
      | some q =>
        cases p' with
        | none => simp [embESource, pyEqWith_dict_dict, sourceEqv]
        | some q' =>
          simp [embESource, pyEqWith_dict_dict, pyEqDictWith, Py.dictGet?, sourceEqv, pyEqWith_str_str]
          by_cases e : d = d' <;> by_cases e' : q = q' <;> simp [e, e']

/-! ### `==` with an instance of a library class on either side -/

theorem pyEqWith_flat_obj (o) (c fs b) : pyEqWith o (.obj c fs) b = pyEqFlat o (.obj c fs) b := by
  cases b <;> rfl

/-- an instance of a library class on the left: its `__eq__` decides -/
theorem pyEqWith_lib (o) (c : String) (fs) (b : PVal) (hc : eqLibClass c = true) (hb : eqKind b ≠ .foreign) :
    pyEqWith o (.obj c fs) b = (o (.obj c fs) b >>= asBool) := by
  rw [pyEqWith_flat_obj]
  have ha : eqKind (.obj c fs) = .lib := by simp [eqKind, hc]
  unfold pyEqFlat
  rw [ha]
  cases hkb : eqKind b <;> first | rfl | exact absurd hkb hb

theorem eqKind_embE (b : Node) (h : eqCov b = true) : eqKind (embE b) ≠ .foreign := by
  cases b <;> simp [eqCov] at h <;> simp [embE, eqKind, eqLibClass, eqHelperField]

theorem equalsSpec_not_inst (o) (c fs y) (h : isInstanceTypeOf y (.obj c fs) = false) :
    equalsSpec o c fs y = .ok (.bool false) := by
  simp [equalsSpec, h]

theorem eq_natCast_beq (a b : Nat) : ((a : Int) == (b : Int)) = (a == b) := by
  rw [Bool.eq_iff_iff, beq_iff_eq, beq_iff_eq]; omega

theorem eqKind_obj_ne_builtin (c : String) (fs) : eqKind (.obj c fs) ≠ .builtin := by
  simp only [eqKind]
  split
  · simp
  · split
    · simp
    · split <;> simp

theorem not_inst_builtin (y : PVal) (c : String) (fs) (hy : eqKind y = .builtin) (hc : eqLibClass c = true) :
    isInstanceTypeOf y (.obj c fs) = false := by
  simp only [eqLibClass, Bool.or_eq_true, beq_iff_eq] at hc
  rcases hc with (rfl | rfl) | rfl <;> cases y <;>
    first | rfl | exact absurd hy (eqKind_obj_ne_builtin _ _) | simp [eqKind] at hy

theorem pyEqWith_builtin_lib (o) (a : PVal) (c : String) (fs) (ha : eqKind a = .builtin) (hc : eqLibClass c = true) :
    pyEqWith o a (.obj c fs) = (o (.obj c fs) (unwrapHtml a) >>= asBool) := by
  have hb : eqKind (.obj c fs) = .lib := by simp [eqKind, hc]
  have hf : pyEqWith o a (.obj c fs) = pyEqFlat o a (.obj c fs) := by cases a <;> rfl
  rw [hf]
  unfold pyEqFlat
  rw [ha, hb]

theorem unwrapHtml_builtin (a : PVal) (ha : eqKind a = .builtin) : eqKind (unwrapHtml a) = .builtin := by
  cases a <;> first | exact ha | rfl

theorem pyEqWith_version (o) (d d' : DepInfo) : pyEqWith o (embEVersion d) (embEVersion d') = .ok (d.vrank == d'.vrank) := by
  rw [embEVersion, embEVersion, pyEqWith_flat_obj]
  simp [pyEqFlat, eqKind, eqLibClass, eqHelperField, eqVersion, fieldGet?, eq_natCast_beq]

/-! ### `str.replace("</", "<\\/")` is the model's one-pass `neutralise` -/

theorem replaceGo_neut_len (n : Nat) : ∀ s : Str, s.length ≤ n →
    replaceGo ['<', '/'] ['<', '\\', '/'] 0 s = neutG false s := by
  induction n with
  | zero =>
    intro s hs
    cases s with
    | nil => rfl
    | cons c r => simp at hs
  | succ n ih =>
    intro s hs
    cases s with
    | nil => rfl
    | cons c r =>
      have hr : r.length ≤ n := by simp at hs; omega
      by_cases hc : c = '<'
      · subst hc
        cases r with
        | nil => rfl
        | cons d r' =>
          by_cases hd : d = '/'
          · subst hd
            have hr' : r'.length ≤ n := by simp at hr; omega
            simp [replaceGo, neutG, ih r' hr']
          · have hd' : ¬ '/' = d := fun e => hd e.symm
            have h1 : replaceGo ['<', '/'] ['<', '\\', '/'] 0 ('<' :: d :: r')
                = '<' :: replaceGo ['<', '/'] ['<', '\\', '/'] 0 (d :: r') := by
              simp [replaceGo, List.isPrefixOf, hd']
            rw [h1, ih (d :: r') hr]
            simp [neutG, hd]
      · have hc' : ¬ '<' = c := fun e => hc e.symm
        have h1 : replaceGo ['<', '/'] ['<', '\\', '/'] 0 (c :: r) = c :: replaceGo ['<', '/'] ['<', '\\', '/'] 0 r := by
          simp [replaceGo, List.isPrefixOf, hc']
        have hb : (c == '<') = false := by simp [hc]
        rw [h1, ih r hr]
        simp [neutG, hb]

end HtmlVerif.SrcTie
