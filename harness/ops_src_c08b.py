"""Implementation side of the source tie for C08b (DESIGN §14): the real `HTML.__init__` / `__str__` / `__repr__` /
`_repr_html_`, `HTMLDependency.__repr__` / `__str__`, `Tag.__copy__`, `HTMLDocument.__copy__`, `_copy_tag_nodes`,
`HTMLDependency.__copy__` on the realised values.

By value (`src <function> [ args ]`): library objects are realised with exactly the `__dict__` the line gives, in that
order (`O Tag [ name … add_ws … attrs … children … prev_displayhook … ]`), and encoded back from their `__dict__`.

With identity (`srcc08b <function> L [ <heap object>… ] [ args ]`, the translations over the heap of Py/PrimC08b.lean):

    -> ok <graph of the result> ;; L [ <heap object>… ]   |   err <kind>   |   unsupported

Heap object `n` is `O <Class> [ field value … ]` (instance), `M [ … ]` with its class given by the references to it
(`TagAttrDict` / `dict`), or `L [ … ]` (`list`); a reference is `O <Class> [ __id__ I n ]`.  The real objects are built with
identity, the real function is called, and the answer is the object graph reachable from the result, in depth-first order
of `__dict__` / items: an object of the original heap is written as its reference, an object *created by the call* is
written in full at its first visit as `O new [ k I <k> c S <class> v <object> ]` (k = visit order) and as `O new [ k I <k> ]` afterwards.
The second part is the original heap read back after the call (the original must be unchanged).  The driver writes the same
thing from the Lean heap (Ops/SrcC08b.lean), so the comparison is about the *shape of the object graph*: which objects are new,
which are shared with the original.
"""
from __future__ import annotations

import ops_src
from ops import op
from wire import Toks, ds, es

EXC = ops_src.EXC


def _core():
    from htmltools import _core
    return _core


# ------------------------------------------------------------------ by value
def _version(fields):
    from packaging.version import Version
    return Version(fields["__str__"])


def _with_dict(cls, fields, conv=None):
    o = cls.__new__(cls)
    for k, v in fields.items():
        o.__dict__[k] = conv(k, v) if conv else v
    return o


def _tag(fields):
    c = _core()

    def conv(k, v):
        if k == "attrs" and type(v) is dict:
            a = c.TagAttrDict()
            dict.update(a, v)
            return a
        return v
    return _with_dict(c.Tag, fields, conv)


ops_src.REALIZE["Version"] = _version
ops_src.REALIZE["Tag"] = _tag
ops_src.REALIZE["TagList"] = lambda f: _with_dict(_core().TagList, f)
ops_src.REALIZE["HTMLDependency"] = lambda f: _with_dict(_core().HTMLDependency, f)
ops_src.REALIZE["HTMLDocument"] = lambda f: _with_dict(_core().HTMLDocument, f)
ops_src.REALIZE["MetadataNode"] = lambda f: _with_dict(_core().MetadataNode, f)
ops_src.REALIZE["HTML"] = lambda f: _with_dict(_core().HTML, f)        # `HTML.__new__(HTML)`: no `data` yet


def _encode(v, enc):
    c = _core()
    if type(v) in (c.Tag, c.TagList, c.HTMLDependency, c.HTMLDocument, c.MetadataNode):
        return f"O {type(v).__name__} [ " + "".join(f"{k} {enc(x)} " for k, x in v.__dict__.items()) + "]"
    from packaging.version import Version
    if type(v) is Version:
        import srctie_c08
        try:
            return f"O Version [ __str__ S {es(str(v))} rank I {srctie_c08.vrank(str(v))} ]"
        except ValueError:
            return f"O Version [ __str__ S {es(str(v))} ]"
    if type(v) is ops_src._Repr:
        return f"O ReprObj [ _repr_html_ S {es(v._t)} ]"
    if type(v) is ops_src._TagifiableRepr:
        return f"O TagifiableObj [ tagify N _repr_html_ S {es(v._t)} ]"
    if type(v) is ops_src._Tagifiable:
        return "O TagifiableObj [ tagify N ]"
    return None


ops_src.ENCODE.append(_encode)


def _html_init(a):
    r = _core().HTML.__init__(a[0], a[1])
    if r is not None:
        raise AssertionError("__init__ returned a value")
    if type(a[0]) is not _core().HTML:
        raise LookupError("self is not an HTML")          # the by-value translation returns the new self: no verdict
    return a[0]


def _copy(a):
    import copy
    return copy.copy(a[0])


ops_src.CALLS["HTML_initC08b"] = _html_init
ops_src.CALLS["HTML_strC08b"] = lambda a: _core().HTML.__str__(a[0])
ops_src.CALLS["HTML_reprC08b"] = lambda a: _core().HTML.__repr__(a[0])
ops_src.CALLS["HTML_repr_htmlC08b"] = lambda a: _core().HTML._repr_html_(a[0])
ops_src.CALLS["HTMLDependency_reprC08b"] = lambda a: _core().HTMLDependency.__repr__(a[0])
ops_src.CALLS["HTMLDependency_strC08b"] = lambda a: _core().HTMLDependency.__str__(a[0])
ops_src.CALLS["Tag_copyC08b"] = lambda a: _core().Tag.__copy__(a[0])
ops_src.CALLS["HTMLDocument_copyC08b"] = lambda a: _core().HTMLDocument.__copy__(a[0])
ops_src.CALLS["copy_tag_nodesC08b"] = lambda a: _core()._copy_tag_nodes(a[0])
ops_src.CALLS["HTMLDependency_copyC08b"] = lambda a: _core().HTMLDependency.__copy__(a[0])


# ------------------------------------------------------------------ with identity
class Unsupported(Exception):
    pass


def parse(t: Toks):
    k = t.next()
    if k in ("N", "T", "F"):
        return (k,)
    if k == "I":
        return ("I", int(t.next()))
    if k in ("D", "S", "H"):
        return (k, ds(t.next()))
    if k in ("L", "U"):
        assert t.next() == "["
        xs = []
        while t.peek() != "]":
            xs.append(parse(t))
        t.next()
        return (k, xs)
    if k == "M":
        assert t.next() == "["
        kvs = []
        while t.peek() != "]":
            key = ds(t.next())
            kvs.append((key, parse(t)))
        t.next()
        return ("M", kvs)
    if k == "O":
        cls = t.next()
        assert t.next() == "["
        fs = []
        while t.peek() != "]":
            f = t.next()
            fs.append((f, parse(t)))
        t.next()
        return ("O", cls, fs)
    raise ValueError(f"bad pval {k}")


def _is_ref(v):
    return v[0] == "O" and [f for f, _ in v[2]] == ["__id__"] and v[2][0][1][0] == "I"


class Env:
    """real objects with identity for the heap of the line"""

    CLASSES = ("Tag", "TagList", "HTMLDependency", "HTMLDocument", "MetadataNode")

    def __init__(self, heap_terms):
        c = _core()
        self.terms = heap_terms
        # the class of a dict / list object is given by the references to it
        self.refcls: dict[int, str] = {}

        def scan(v):
            if v[0] == "O":
                if _is_ref(v):
                    n = v[2][0][1][1]
                    if self.refcls.setdefault(n, v[1]) != v[1]:
                        raise Unsupported("two references to one object disagree about its class")
                else:
                    for _, x in v[2]:
                        scan(x)
            elif v[0] in ("L", "U"):
                for x in v[1]:
                    scan(x)
            elif v[0] == "M":
                for _, x in v[1]:
                    scan(x)
        self.scan = scan
        for h in heap_terms:
            scan(h)
        self.objs = []
        for n, h in enumerate(heap_terms):
            cls = self.refcls.get(n)
            if h[0] == "O" and h[1] in self.CLASSES and not _is_ref(h):
                if cls not in (None, h[1]):
                    raise Unsupported("reference class differs from the object's class")
                k = getattr(c, h[1])
                self.objs.append(k.__new__(k))
            elif h[0] == "M":
                if cls in (None, "TagAttrDict"):
                    self.objs.append(c.TagAttrDict())
                elif cls == "dict":
                    self.objs.append({})
                else:
                    raise Unsupported("a dict object referred to as " + str(cls))
            elif h[0] == "L":
                if cls not in (None, "list"):
                    raise Unsupported("a list object referred to as " + str(cls))
                self.objs.append([])
            else:
                raise Unsupported("heap object of an unknown kind")
        self.ids = {id(o): n for n, o in enumerate(self.objs)}
        self.keep = []

    def fill(self):
        for o, h in zip(self.objs, self.terms):
            if h[0] == "O":
                for k, v in h[2]:
                    o.__dict__[k] = self.val(v)
            elif h[0] == "M":
                for k, v in h[1]:
                    dict.__setitem__(o, k, self.val(v))
            else:
                o.extend(self.val(v) for v in h[1])

    def val(self, v):
        c = _core()
        k = v[0]
        if k == "N":
            return None
        if k == "T":
            return True
        if k == "F":
            return False
        if k == "I":
            return v[1]
        if k == "D":
            return float(v[1])
        if k == "S":
            return v[1]
        if k == "H":
            return c.HTML(v[1])
        if k == "U":
            return tuple(self.val(x) for x in v[1])
        if k == "L":
            return [self.val(x) for x in v[1]]           # a list *without identity*: only as `data` of a TagList
        if k == "M":
            raise Unsupported("a dict without identity")
        if _is_ref(v):
            n = v[2][0][1][1]
            if not 0 <= n < len(self.objs):
                raise Unsupported("dangling reference")
            return self.objs[n]
        cls, fs = v[1], dict(v[2])
        if cls == "Version":
            return self.kept(_version({"__str__": fs["__str__"][1]}))
        if cls == "ReprObj":
            return self.kept(ops_src._Repr(fs["_repr_html_"][1]))
        if cls == "TagifiableObj":
            return self.kept(ops_src._TagifiableRepr(fs["_repr_html_"][1]) if "_repr_html_" in fs else ops_src._Tagifiable())
        if cls == "type":
            return getattr(c, fs["__name__"][1])
        raise Unsupported(f"an instance of {cls} without identity")

    def kept(self, x):
        self.keep.append(x)
        return x

    # -------------------------------------------------------------- encode
    def scalar(self, v):
        c = _core()
        if v is None:
            return "N"
        if v is True:
            return "T"
        if v is False:
            return "F"
        if type(v) is int:
            return f"I {v}"
        if type(v) is float:
            return "D " + es(str(v))
        if type(v) is str:
            return "S " + es(v)
        if type(v) is c.HTML:
            return "H " + es(v.as_string())
        return None

    def clsname(self, o):
        c = _core()
        if type(o) is dict:
            return "dict"
        if type(o) is list:
            return "list"
        if type(o) in (c.Tag, c.TagList, c.HTMLDependency, c.HTMLDocument, c.MetadataNode, c.TagAttrDict):
            return type(o).__name__
        return None

    def body(self, o, enc) -> str:
        """the contents of a mutable object"""
        if isinstance(o, dict):
            return "M [ " + "".join(es(k) + " " + enc(x) + " " for k, x in o.items()) + "]"
        if type(o) is list:
            return "L [ " + "".join(enc(x) + " " for x in o) + "]"
        return f"O {type(o).__name__} [ " + "".join(f"{k} {enc(x)} " for k, x in o.__dict__.items()) + "]"

    def graph(self, v) -> str:
        new: dict[int, int] = {}

        def enc(x, depth=0, in_data=False):
            if depth > 200:
                raise Unsupported("too deep")
            s = self.scalar(x)
            if s is not None:
                return s
            if type(x) is tuple:
                return "U [ " + "".join(enc(y, depth + 1) + " " for y in x) + "]"
            if type(x) is list and in_data:
                return "L [ " + "".join(enc(y, depth + 1) + " " for y in x) + "]"
            cn = self.clsname(x)
            if cn is not None:
                if id(x) in self.ids:
                    return f"O {cn} [ __id__ I {self.ids[id(x)]} ]"
                if id(x) in new:
                    return f"O new [ k I {new[id(x)]} ]"
                new[id(x)] = len(new)
                k = new[id(x)]
                self.keep.append(x)
                if type(x) is _core().TagList:
                    inner = "O TagList [ " + "".join(f"{f} {enc(y, depth + 1, f == 'data')} " for f, y in x.__dict__.items()) + "]"
                else:
                    inner = self.body(x, lambda y: enc(y, depth + 1))
                return f"O new [ k I {k} c S {es(cn)} v {inner} ]"
            return self.foreign(x)
        return enc(v)

    def foreign(self, x) -> str:
        c = _core()
        from packaging.version import Version
        if type(x) is Version:
            import srctie_c08
            return f"O Version [ __str__ S {es(str(x))} rank I {srctie_c08.vrank(str(x))} ]"
        if type(x) is ops_src._Repr:
            return f"O ReprObj [ _repr_html_ S {es(x._t)} ]"
        if type(x) is ops_src._TagifiableRepr:
            return f"O TagifiableObj [ tagify N _repr_html_ S {es(x._t)} ]"
        if type(x) is ops_src._Tagifiable:
            return "O TagifiableObj [ tagify N ]"
        if isinstance(x, type) and getattr(c, x.__name__, None) is x:
            return f"O type [ __name__ S {es(x.__name__)} ]"
        raise Unsupported(f"cannot encode {type(x).__name__}")

    def heap(self) -> str:
        def enc(x, in_data=False):
            s = self.scalar(x)
            if s is not None:
                return s
            if type(x) is tuple:
                return "U [ " + "".join(enc(y) + " " for y in x) + "]"
            if type(x) is list and in_data:
                return "L [ " + "".join(enc(y) + " " for y in x) + "]"
            cn = self.clsname(x)
            if cn is not None:
                if id(x) in self.ids:
                    return f"O {cn} [ __id__ I {self.ids[id(x)]} ]"
                return "O escaped [ ]"                      # an object created by the call is reachable from the original
            return self.foreign(x)
        out = []
        for o in self.objs:
            if type(o) is _core().TagList:
                out.append("O TagList [ " + "".join(f"{f} {enc(y, f == 'data')} " for f, y in o.__dict__.items()) + "]")
            else:
                out.append(self.body(o, enc))
        return "L [ " + "".join(x + " " for x in out) + "]"


def _call_heap(f: str, a: list):
    c = _core()
    if f == "Tag_copyHC08b":
        return c.Tag.__copy__(a[0])
    if f == "HTMLDocument_copyHC08b":
        return c.HTMLDocument.__copy__(a[0])
    if f == "copy_tag_nodesHC08b":
        return c._copy_tag_nodes(a[0])
    if f == "HTMLDependency_copyHC08b":
        return c.HTMLDependency.__copy__(a[0])
    raise LookupError(f)


@op("srcc08b")
def _srcc08b(t: Toks) -> str:
    f = t.next()
    heap = parse(t)
    assert t.next() == "["
    args = []
    while t.peek() != "]":
        args.append(parse(t))
    t.next()
    try:
        if heap[0] != "L":
            raise Unsupported("heap")
        env = Env(heap[1])
        for x in args:
            env.scan(x)
        env.fill()
        a = [env.val(x) for x in args]
    except (Unsupported, ImportError, AttributeError, KeyError, IndexError, TypeError):
        return "unsupported"
    try:
        r = _call_heap(f, a)
    except (Unsupported, LookupError, ImportError) as e:
        if isinstance(e, KeyError):
            return "err KeyError"
        if isinstance(e, IndexError):
            return "err IndexError"
        return "unsupported"
    except RecursionError:
        return "unsupported"
    except Exception as e:  # noqa: BLE001
        for cls in type(e).__mro__:
            if cls.__name__ in EXC:
                return "err " + cls.__name__
        return "err Exception"
    try:
        return "ok " + env.graph(r) + " ;; " + env.heap()
    except Unsupported:
        return "unsupported"
