/-
Helper definitions and lemmas of the source tie for C08b (Props/SrcC08b.lean): the embedding of the tree model into the
Python objects the copy functions see, loop rules for the dict comprehension of `Tag.__copy__` and the `enumerate` loop of
`_copy_tag_nodes`, facts about the primitives of Py/PrimC08b.lean, and — for the translations over the heap — the monad
`HMC08b`, what a heap must hold for a tag (`TagAtC08b`), and what `Tag.__copy__` does to a heap (`tagCopyHeapC08b`).

Specification functions defined here because the model has no counterpart: `depReprTextC08b` (the text of
`repr(HTMLDependency)`: the model's views are those of Tag / TagList).
-/
import HtmlVerif.Lemmas.SrcTie
import HtmlVerif.Lemmas.SrcC08
import HtmlVerif.Lemmas.Tagify
import HtmlVerif.Py.PrimC08b
import HtmlVerif.Generated.Src

set_option linter.unusedSimpArgs false

/-! ### the heap monad `HMC08b`, without unfolding `bind` under binders -/

namespace HtmlVerif.Py
open HtmlVerif

instance : LawfulMonad HMC08b := LawfulMonad.mk' HMC08b
  (id_map := by
    intro α x; funext H
    show HMC08b.bind x (fun a => HMC08b.pure a) H = x H
    unfold HMC08b.bind HMC08b.pure
    rcases h : x H with e | ⟨a, H'⟩ <;> rfl)
  (pure_bind := by intro α β a f; rfl)
  (bind_assoc := by
    intro α β γ x f g; funext H
    show HMC08b.bind (HMC08b.bind x f) g H = HMC08b.bind x (fun a => HMC08b.bind (f a) g) H
    unfold HMC08b.bind
    rcases h : x H with e | ⟨a, H'⟩ <;> rfl)

theorem HMC08b.run_pure {α} (a : α) (H : List PVal) : (pure a : HMC08b α) H = .ok (a, H) := rfl
theorem HMC08b.run_bind {α β} (x : HMC08b α) (f : α → HMC08b β) (H : List PVal) :
    (x >>= f) H = match x H with
      | .ok (a, H') => f a H'
      | .error e => .error e := rfl
theorem HMC08b.run_bind_ok {α β} {x : HMC08b α} {f : α → HMC08b β} {H H' : List PVal} {a : α} (h : x H = .ok (a, H')) :
    (x >>= f) H = f a H' := by rw [HMC08b.run_bind, h]
theorem HMC08b.run_bind_error {α β} {x : HMC08b α} {f : α → HMC08b β} {H : List PVal} {e : PyErr} (h : x H = .error e) :
    (x >>= f) H = .error e := by rw [HMC08b.run_bind, h]
@[simp] theorem HMC08b.lift_ok {α} (a : α) : (liftM (Except.ok a : PyM α) : HMC08b α) = pure a := rfl
@[simp] theorem HMC08b.lift_error {α} (e : PyErr) : (liftM (Except.error e : PyM α) : HMC08b α) = throw e := rfl
@[simp] theorem HMC08b.throw_bind {α β} (e : PyErr) (f : α → HMC08b β) : ((throw e : HMC08b α) >>= f) = throw e := rfl
theorem HMC08b.run_throw {α} (e : PyErr) (H : List PVal) : (throw e : HMC08b α) H = .error e := rfl

/-- the dict comprehension of `Tag.__copy__` over the heap: the values are copied in order (each copy may allocate), each
    stored under its key -/
def copyFieldsHC08b : List (String × PVal) → List (Str × PVal) → HMC08b (List (Str × PVal))
  | [], acc => pure acc
  | kv :: r, acc => do
    let v ← hCopyFieldC08b kv.2
    copyFieldsHC08b r (dictSet kv.1.toList v acc)
end HtmlVerif.Py

namespace HtmlVerif.SrcTie
open HtmlVerif HtmlVerif.Py HtmlVerif.Generated.Src

/-! ### `str()` returns a `str` -/

theorem pyStr_ok_str (x v : PVal) (h : pyStr x = .ok v) : ∃ s, v = .str s := by
  cases x with
  | obj c fs =>
    simp only [pyStr] at h
    split at h
    · cases h; exact ⟨_, rfl⟩
    · cases h
  | bool b => cases b <;> (cases h; exact ⟨_, rfl⟩)
  | none => cases h; exact ⟨_, rfl⟩
  | int n => cases h; exact ⟨_, rfl⟩
  | float t => cases h; exact ⟨_, rfl⟩
  | str s => cases h; exact ⟨_, rfl⟩
  | html s => cases h; exact ⟨_, rfl⟩
  | list xs => cases h
  | tuple xs => cases h
  | dict kvs => cases h

/-- the text of `repr(dep)`: `<HTMLDependency "name-version">` (specification function: the model has no counterpart) -/
def depReprTextC08b (name version : Str) : Str :=
  ['<', 'H', 'T', 'M', 'L', 'D', 'e', 'p', 'e', 'n', 'd', 'e', 'n', 'c', 'y', ' ', '"'] ++ name ++ ['-'] ++ version ++ ['"', '>']

/-- an f-string whose pieces are all strings -/
theorem pyConcat_strs (l : List Str) : pyConcat (l.map PVal.str) = .ok (.str l.flatten) := by
  induction l with
  | nil => rfl
  | cons a t ih => simp only [List.map_cons, pyConcat, ih, ok_bind, pure_eq_ok, List.flatten_cons]

theorem pyStr_embEVersion (d : DepInfo) : pyStr (embEVersion d) = .ok (.str d.version) := rfl

theorem pyGetAttr_obj (c : String) (fs : List (String × PVal)) (k : String) (v : PVal) (h : fieldGet? k fs = some v) :
    pyGetAttr (.obj c fs) k = .ok v := by simp [pyGetAttr, h]

/-! ### the Python objects the copy functions see -/

mutual
  /-- as `embE` (Lemmas/SrcC08.lean: every library object with its whole `__dict__` in creation order), except that a
      bare metadata node is an instance of `MetadataNode` itself (so that `isinstance(child, MetadataNode)` sees it) and a
      self-rendering object is the fragment's `ReprObj` -/
  def embC08b : Node → PVal
    | .tag name ws attrs kids =>
      .obj "Tag" [("name", .str name), ("add_ws", .bool ws), ("attrs", embAttrs attrs),
                  ("children", eqTagList (embsC08b kids)), ("prev_displayhook", .none)]
    | .text s => .str s
    | .html s => .html s
    | .robj s => .obj "ReprObj" [("_repr_html_", .str s)]
    | .mnode n => .obj "MetadataNode" [("n", .int n)]
    | .dep d hh head =>
      .obj "HTMLDependency" [("name", .str d.name), ("version", embEVersion d), ("source", embESource d.source),
        ("script", embEKvs d.script), ("stylesheet", embEKvs d.stylesheet), ("meta", embEKvs d.metas),
        ("all_files", .bool d.allFiles), ("head", if hh then eqTagList (embsC08b head) else .none)]
    | .tobjL _ _ => .obj "TagifiableObj" [("tagify", .none)]
    | .tobj1 _ _ => .obj "TagifiableObj" [("tagify", .none)]
  def embsC08b : Nodes → List PVal
    | .nil => []
    | .cons h t => embC08b h :: embsC08b t
end

theorem embsC08b_toList (ks : Nodes) : embsC08b ks = ks.toList.map embC08b := by
  induction ks using Nodes.rec (motive_1 := fun _ => True) with
  | nil => rfl
  | cons h t _ ih => simp [embsC08b, Nodes.toList, ih]
  | _ => trivial

mutual
  /-- fuel that suffices for `_copy_tag_nodes` on a child list: one level per Tag nesting (`_copy_tag_nodes` calls itself on
      the children), two per dependency nesting (`HTMLDependency.__copy__`, then `_copy_tag_nodes` on its head) -/
  def cpFuelC08b : Node → Nat
    | .tag _ _ _ k => cpFuelKidsC08b k + 1
    | .dep _ _ k => cpFuelKidsC08b k + 2
    | _ => 0
  def cpFuelKidsC08b : Nodes → Nat
    | .nil => 0
    | .cons h t => max (cpFuelC08b h) (cpFuelKidsC08b t)
end

theorem cpFuel_le_kids (ks : Nodes) (c : Node) (h : c ∈ ks.toList) : cpFuelC08b c ≤ cpFuelKidsC08b ks := by
  induction ks using Nodes.rec (motive_1 := fun _ => True) with
  | nil => simp [Nodes.toList] at h
  | cons x t _ ih =>
    simp only [Nodes.toList, List.mem_cons] at h
    simp only [cpFuelKidsC08b]
    rcases h with rfl | h
    · omega
    · have := ih h; omega
  | _ => trivial

/-! ### facts about the by-value primitives -/

theorem plainNew_ne_type (c : String) (h : plainNewC08b c = true) : (c == "type") = false := by
  simp only [plainNewC08b, Bool.or_eq_true, beq_iff_eq] at h
  rcases h with (((rfl | rfl) | rfl) | rfl) | rfl <;> decide

theorem classNameC08b_mk (c : String) : classNameC08b (mkClassC08b c) = some c := by
  simp [classNameC08b, mkClassC08b]

theorem pyNewC08b_mk (c : String) (h : plainNewC08b c = true) : pyNewC08b (mkClassC08b c) (mkClassC08b c) = .ok (.obj c []) := by
  simp [pyNewC08b, classNameC08b_mk, h]

/-- field values that `copy()` inside `Tag.__copy__` returns as they are, by value -/
def copyPlainC08b : PVal → Bool
  | .obj c fs => !hasCopyMethodC08b c && (fieldGet? "__copy__" fs).isNone
  | _ => true

theorem pyCopyFieldC08b_plain (v : PVal) (h : copyPlainC08b v = true) : pyCopyFieldC08b v = .ok v := by
  cases v with
  | obj c fs =>
    simp only [copyPlainC08b, Bool.and_eq_true, Bool.not_eq_true', Option.isNone_iff_eq_none] at h
    simp [pyCopyFieldC08b, pyCopy, h.1, h.2]
  | _ => rfl

theorem pyCopyDispC08b_tag (tg dp : PVal → PyM PVal) (fs) : pyCopyDispC08b tg dp (.obj "Tag" fs) = tg (.obj "Tag" fs) := rfl
theorem pyCopyDispC08b_dep (tg dp : PVal → PyM PVal) (fs) :
    pyCopyDispC08b tg dp (.obj "HTMLDependency" fs) = dp (.obj "HTMLDependency" fs) := rfl
theorem pyCopyDispC08b_taglist (tg dp : PVal → PyM PVal) (l : List PVal) :
    pyCopyDispC08b tg dp (eqTagList l) = .ok (eqTagList l) := rfl
theorem pyCopyDispC08b_mnode (tg dp : PVal → PyM PVal) (n : Int) :
    pyCopyDispC08b tg dp (.obj "MetadataNode" [("n", .int n)]) = .ok (.obj "MetadataNode" [("n", .int n)]) := rfl

/-- `d[k] = v` for a key that is not in the dict appends -/
theorem dictSet_append (k : Str) (v : PVal) (acc : List (Str × PVal)) (h : k ∉ acc.map (·.1)) :
    Py.dictSet k v acc = acc ++ [(k, v)] := by
  induction acc with
  | nil => rfl
  | cons x t ih =>
    simp only [List.map_cons, List.mem_cons, not_or] at h
    simp only [Py.dictSet, List.cons_append]
    rw [if_neg (fun e => h.1 e.symm), ih h.2]

theorem fieldSet_append (k : String) (v : PVal) (acc : List (String × PVal)) (h : k ∉ acc.map (·.1)) :
    fieldSet k v acc = acc ++ [(k, v)] := by
  induction acc with
  | nil => rfl
  | cons x t ih =>
    simp only [List.map_cons, List.mem_cons, not_or] at h
    simp only [fieldSet, List.cons_append]
    rw [if_neg (fun e => h.1 e.symm), ih h.2]

/-- the dict comprehension over a `__dict__` with distinct keys rebuilds it -/
theorem dictcomp_fold (fs : List (String × PVal)) (acc : List (Str × PVal)) (hk : (fs.map (·.1)).Nodup)
    (hd : ∀ kv ∈ fs, kv.1.toList ∉ acc.map (·.1)) :
    fs.foldl (fun a kv => Py.dictSet kv.1.toList kv.2 a) acc = acc ++ fs.map fun kv => (kv.1.toList, kv.2) := by
  induction fs generalizing acc with
  | nil => simp
  | cons x t ih =>
    simp only [List.map_cons, List.nodup_cons] at hk
    simp only [List.foldl_cons, List.map_cons]
    rw [dictSet_append _ _ _ (hd x (by simp)), ih _ hk.2]
    · simp
    · intro kv hkv
      simp only [List.map_append, List.map_cons, List.map_nil, List.mem_append, List.mem_cons, List.not_mem_nil, or_false,
        not_or]
      refine ⟨hd kv (by simp [hkv]), fun e => hk.1 ?_⟩
      have : kv.1 = x.1 := String.toList_inj.mp e
      rw [← this]
      exact List.mem_map_of_mem (f := (·.1)) hkv

/-- `x.__dict__.update(d)` with the entries of a `__dict__` with distinct keys, on an instance that has none of them -/
theorem fieldfold_rebuild (fs acc : List (String × PVal)) (hk : (fs.map (·.1)).Nodup)
    (hd : ∀ kv ∈ fs, kv.1 ∉ acc.map (·.1)) :
    (fs.map fun kv => (kv.1.toList, kv.2)).foldl (fun a kv => fieldSet (String.ofList kv.1) kv.2 a) acc = acc ++ fs := by
  induction fs generalizing acc with
  | nil => simp
  | cons x t ih =>
    simp only [List.map_cons, List.nodup_cons] at hk
    simp only [List.map_cons, List.foldl_cons, String.ofList_toList]
    rw [fieldSet_append _ _ _ (hd x (by simp)), ih _ hk.2]
    · simp
    · intro kv hkv
      simp only [List.map_append, List.map_cons, List.map_nil, List.mem_append, List.mem_cons, List.not_mem_nil, or_false,
        not_or]
      refine ⟨hd kv (by simp [hkv]), fun e => hk.1 ?_⟩
      rw [← e]
      exact List.mem_map_of_mem (f := (·.1)) hkv

/-- the loop of a dict comprehension `{k: … for k, v in d.items()}` whatever its body is: if one pass on the entry
    `(k, v)` stores `g v` under `k`, the loop is the fold of `dictSet` -/
theorem dictcomp_loop (g : PVal → PVal) (fs : List (String × PVal)) (acc : List (Str × PVal))
    (f : PVal → PVal → PyM (ForInStep PVal))
    (hstep : ∀ kv ∈ fs, ∀ a : List (Str × PVal),
      f (.tuple [.str kv.1.toList, kv.2]) (.dict a) = .ok (.yield (.dict (Py.dictSet kv.1.toList (g kv.2) a)))) :
    forIn (fs.map fun kv => PVal.tuple [PVal.str kv.1.toList, kv.2]) (PVal.dict acc) f
      = .ok (.dict (fs.foldl (fun a kv => Py.dictSet kv.1.toList (g kv.2) a) acc)) := by
  induction fs generalizing acc with
  | nil => rfl
  | cons x t ih =>
    simp only [List.map_cons, List.forIn_cons, hstep x (by simp) acc, ok_bind, List.foldl_cons]
    exact ih _ (fun kv hkv a => hstep kv (by simp [hkv]) a)

/-- `pyObjDict` then `.items()` then iteration: the entries of the `__dict__` as pairs -/
theorem pyObjDict_obj (c : String) (fs : List (String × PVal)) (hp : (fs.any fun f => pseudoField f.1) = false) :
    pyObjDict (.obj c fs) = .ok (.dict (fs.map fun kv => (kv.1.toList, kv.2))) := by
  simp [pyObjDict, hp]

theorem pyObjDictUpdateC08b_obj (c : String) (fs : List (String × PVal)) (kvs : List (Str × PVal))
    (hc : (c == "type") = false) (hp : (fs.any fun f => pseudoField f.1) = false) :
    pyObjDictUpdateC08b (.obj c fs) (.dict kvs)
      = .ok (.obj c (kvs.foldl (fun acc kv => fieldSet (String.ofList kv.1) kv.2 acc) fs)) := by
  simp [pyObjDictUpdateC08b, hc, hp]

/-! ### a loop that leaves what the continuation reads unchanged -/

/-- whatever the loop body and the shape of the loop state are: if the continuation `k` gives `r` on the initial state and
    every pass, from a state on which `k` gives `r`, yields a state on which `k` gives `r`, then the loop followed by `k`
    gives `r` (the invariant is stated through the continuation, so the state tuple is never destructured) -/
theorem forIn_keep_k {α σ β : Type} (l : List α) (init : σ) (f : α → σ → PyM (ForInStep σ)) (k : σ → PyM β) (r : PyM β)
    (h0 : k init = r)
    (hstep : ∀ a ∈ l, ∀ s, k s = r → ∃ s', f a s = .ok (.yield s') ∧ k s' = r) :
    (forIn l init f >>= k) = r := by
  induction l generalizing init with
  | nil => simpa using h0
  | cons a t ih =>
    obtain ⟨s', h1, h2⟩ := hstep a (by simp) init h0
    simp only [List.forIn_cons, h1, ok_bind]
    exact ih s' h2 (fun b hb s hs => hstep b (by simp [hb]) s hs)

theorem mem_enum (l : List PVal) (a : PVal)
    (h : a ∈ ((List.range l.length).zip l).map fun p => PVal.tuple [PVal.int (p.1 : Nat), p.2]) :
    ∃ (i : Nat) (x : PVal), l[i]? = some x ∧ a = .tuple [.int (i : Nat), x] := by
  obtain ⟨p, hp, rfl⟩ := List.mem_map.mp h
  obtain ⟨j, hj, hpj⟩ := List.mem_iff_getElem.mp hp
  refine ⟨p.1, p.2, ?_, rfl⟩
  have hj' : j < l.length := by simp at hj; omega
  have : p = (j, l[j]) := by rw [← hpj]; simp
  rw [this]
  simp [hj']

/-- the same for the loop `for i, x in enumerate(l)` -/
theorem forIn_enum_keep_k {σ β : Type} (l : List PVal) (init : σ) (f : PVal → σ → PyM (ForInStep σ)) (k : σ → PyM β)
    (r : PyM β) (h0 : k init = r)
    (hstep : ∀ (i : Nat) (x : PVal), l[i]? = some x → ∀ s, k s = r →
      ∃ s', f (.tuple [.int (i : Nat), x]) s = .ok (.yield s') ∧ k s' = r) :
    (forIn (((List.range l.length).zip l).map fun p => PVal.tuple [PVal.int (p.1 : Nat), p.2]) init f >>= k) = r := by
  refine forIn_keep_k _ init f k r h0 ?_
  intro a ha s hs
  obtain ⟨i, x, hix, rfl⟩ := mem_enum l a ha
  exact hstep i x hix s hs

theorem pyEnumerate_taglist (l : List PVal) :
    pyEnumerate (eqTagList l)
      = .ok (.list (((List.range l.length).zip l).map fun p => PVal.tuple [PVal.int (p.1 : Nat), p.2])) := rfl

/-- storing at position `i` of a TagList the item that is there already -/
theorem pySetItemU_same (l : List PVal) (i : Nat) (x : PVal) (h : l[i]? = some x) :
    pySetItemU (eqTagList l) (.int (i : Nat)) x = .ok (eqTagList l) := by
  have hi : i < l.length := by
    rcases Nat.lt_or_ge i l.length with h' | h'
    · exact h'
    · rw [List.getElem?_eq_none h'] at h; cases h
  have hx : l[i] = x := by rw [List.getElem?_eq_getElem hi] at h; exact Option.some.inj h
  have hneg : ¬ ((i : Int) < 0) := by omega
  have hge : ¬ ((i : Int) < 0 ∨ (i : Int).toNat ≥ l.length) := by
    intro h'; rcases h' with h' | h'
    · exact hneg h'
    · simp at h'; omega
  have hge' : ¬ (False ∨ i ≥ l.length) := by
    intro h'; rcases h' with h' | h'
    · exact h'
    · omega
  simp only [pySetItemU, eqTagList, userListData?, fieldGet?, if_true, pySetItem, hneg, if_false, hge, pure_eq_ok, ok_bind,
    Int.toNat_natCast, fieldSet, ← hx, List.set_getElem_self, hge']

theorem fieldSet_sameC08b (k : String) (v : PVal) (fs : List (String × PVal)) (h : fieldGet? k fs = some v) :
    fieldSet k v fs = fs := by
  induction fs with
  | nil => simp [fieldGet?] at h
  | cons x t ih =>
    obtain ⟨k', v'⟩ := x
    simp only [fieldGet?] at h
    simp only [fieldSet]
    split
    · next e => simp only [e, if_true] at h; cases h; rw [e]
    · next e => simp only [e, if_false] at h; rw [ih h]

/-! ### plain data -/

theorem plainData_ekv (d : List (Str × Str)) : plainDataC08b (embEKv d) = true := by
  have : plainDataKvsC08b (d.map fun kv => (kv.1, PVal.str kv.2)) = true := by
    induction d with
    | nil => rfl
    | cons x t ih => simp [plainDataKvsC08b, plainDataC08b, ih]
  simp [embEKv, plainDataC08b, this]

theorem plainData_ekvs (ds : List (List (Str × Str))) : plainDataC08b (embEKvs ds) = true := by
  have : plainDataListC08b (ds.map embEKv) = true := by
    induction ds with
    | nil => rfl
    | cons x t ih => simp [plainDataListC08b, plainData_ekv, ih]
  simp [embEKvs, plainDataC08b, this]

theorem plainData_source (s : DepSource) : plainDataC08b (embESource s) = true := by
  cases s with
  | none => rfl
  | href h => rfl
  | subdir p d x => cases p <;> rfl

theorem pyDeepcopyC08b_plain (v : PVal) (h : plainDataC08b v = true) : pyDeepcopyC08b v = .ok v := by
  simp [pyDeepcopyC08b, h]

/-! ### the `enumerate` loop of `_copy_tag_nodes`, by value -/

theorem isInstance_tag_Tag (fs) : isInstance (.obj "Tag" fs) ["Tag"] = true := by simp [isInstance]
theorem isInstance_dep_Tag (fs) : isInstance (.obj "HTMLDependency" fs) ["Tag"] = false := by
  simp [isInstance, classBases]
theorem isInstance_dep_Meta (fs) : isInstance (.obj "HTMLDependency" fs) ["MetadataNode"] = true := by
  simp [isInstance, classBases]

theorem embTag_isTag (nm ws a k) : isInstance (embC08b (.tag nm ws a k)) ["Tag"] = true := by simp [embC08b, isInstance]
theorem embTag_disp (tg dp : PVal → PyM PVal) (nm ws a k) :
    pyCopyDispC08b tg dp (embC08b (.tag nm ws a k)) = tg (embC08b (.tag nm ws a k)) := rfl
theorem embTag_children (nm ws a k) : pyGetAttr (embC08b (.tag nm ws a k)) "children" = .ok (eqTagList (embsC08b k)) := by
  simp [embC08b, pyGetAttr, fieldGet?]
theorem embTag_setChildren (nm ws a k) :
    pySetAttr (embC08b (.tag nm ws a k)) "children" (eqTagList (embsC08b k)) = .ok (embC08b (.tag nm ws a k)) := by
  simp [embC08b, pySetAttr, fieldSet]
theorem embDep_isTag (d hh k) : isInstance (embC08b (.dep d hh k)) ["Tag"] = false := by
  simp [embC08b, isInstance, classBases]
theorem embDep_isMeta (d hh k) : isInstance (embC08b (.dep d hh k)) ["MetadataNode"] = true := by
  simp [embC08b, isInstance, classBases]
theorem embDep_disp (tg dp : PVal → PyM PVal) (d hh k) :
    pyCopyDispC08b tg dp (embC08b (.dep d hh k)) = dp (embC08b (.dep d hh k)) := rfl
theorem embMeta_isTag (m) : isInstance (embC08b (.mnode m)) ["Tag"] = false := by simp [embC08b, isInstance, classBases]
theorem embMeta_isMeta (m) : isInstance (embC08b (.mnode m)) ["MetadataNode"] = true := by simp [embC08b, isInstance]
theorem embMeta_disp (tg dp : PVal → PyM PVal) (m) :
    pyCopyDispC08b tg dp (embC08b (.mnode m)) = .ok (embC08b (.mnode m)) := rfl

theorem keep_step {σ β : Type} {x : PyM (ForInStep σ)} {k : σ → PyM β} {r : PyM β} (X : σ)
    (hx : x = .ok (.yield X)) (hk : k X = r) : ∃ s', x = .ok (.yield s') ∧ k s' = r := ⟨X, hx, hk⟩

/-- the nodes `_copy_tag_nodes` keeps as they are -/
def keptC08b (v : PVal) : Bool := !isInstance v ["Tag"] && !isInstance v ["MetadataNode"]

theorem embC08b_cases (c : Node) :
    (∃ nm ws a k, c = .tag nm ws a k) ∨ (∃ d hh k, c = .dep d hh k) ∨ (∃ n, c = .mnode n) ∨ keptC08b (embC08b c) = true := by
  cases c with
  | tag nm ws a k => exact .inl ⟨_, _, _, _, rfl⟩
  | dep d hh k => exact .inr (.inl ⟨_, _, _, rfl⟩)
  | mnode n => exact .inr (.inr (.inl ⟨_, rfl⟩))
  | text s => exact .inr (.inr (.inr rfl))
  | html s => exact .inr (.inr (.inr rfl))
  | robj s => exact .inr (.inr (.inr (by simp [keptC08b, embC08b, isInstance, classBases])))
  | tobjL a b => exact .inr (.inr (.inr (by simp [keptC08b, embC08b, isInstance, classBases])))
  | tobj1 a b => exact .inr (.inr (.inr (by simp [keptC08b, embC08b, isInstance, classBases])))

theorem pySetAttr_same (c : String) (fs : List (String × PVal)) (k : String) (v : PVal) (h : fieldGet? k fs = some v) :
    pySetAttr (.obj c fs) k v = .ok (.obj c fs) := by simp [pySetAttr, fieldSet_sameC08b k v fs h]


/-! ### the translations over the heap -/

theorem getElem?_lt {α} {l : List α} {i : Nat} {x : α} (h : l[i]? = some x) : i < l.length := by
  rcases Nat.lt_or_ge i l.length with h' | h'
  · exact h'
  · rw [List.getElem?_eq_none h'] at h; cases h

theorem refId_mkRef (c : String) (i : Nat) : refIdC08b (mkRefC08b c i) = some i := by
  simp [refIdC08b, mkRefC08b]

theorem refClass_mkRef (c : String) (i : Nat) : refClassC08b (mkRefC08b c i) = c := rfl

theorem hDeref_ok (H : List PVal) (c : String) (i : Nat) (o : PVal) (h : H[i]? = some o) :
    hDerefC08b (mkRefC08b c i) H = .ok (o, H) := by
  simp [hDerefC08b, refId_mkRef, h]

theorem hAlloc_run (H : List PVal) (c : String) (o : PVal) : hAllocC08b c o H = .ok (mkRefC08b c H.length, H ++ [o]) := rfl

theorem hStore_ok (H : List PVal) (c : String) (i : Nat) (o : PVal) (h : i < H.length) :
    hStoreC08b (mkRefC08b c i) o H = .ok (⟨⟩, H.set i o) := by
  simp [hStoreC08b, refId_mkRef, h]

theorem hObjDict_ok (H : List PVal) (c c' : String) (i : Nat) (fs : List (String × PVal)) (h : H[i]? = some (.obj c' fs))
    (hp : (fs.any fun f => pseudoField f.1) = false) :
    hObjDictC08b (mkRefC08b c i) H = .ok (.dict (fs.map fun kv => (kv.1.toList, kv.2)), H) := by
  unfold hObjDictC08b
  rw [HMC08b.run_bind_ok (hDeref_ok H c i _ h)]
  simp only [pyObjDict_obj c' fs hp]
  rfl

theorem dictcomp_loopH (fs : List (String × PVal)) (acc : List (Str × PVal))
    (f : PVal → PVal → HMC08b (ForInStep PVal))
    (hstep : ∀ kv ∈ fs, ∀ a : List (Str × PVal),
      f (.tuple [.str kv.1.toList, kv.2]) (.dict a)
        = (hCopyFieldC08b kv.2 >>= fun v => pure (.yield (.dict (Py.dictSet kv.1.toList v a))))) :
    forIn (fs.map fun kv => PVal.tuple [PVal.str kv.1.toList, kv.2]) (PVal.dict acc) f
      = (copyFieldsHC08b fs acc >>= fun kvs => pure (PVal.dict kvs)) := by
  induction fs generalizing acc with
  | nil => simp [copyFieldsHC08b]
  | cons x t ih =>
    simp only [List.map_cons, List.forIn_cons, hstep x (by simp) acc, bind_assoc, pure_bind, copyFieldsHC08b]
    congr 1
    funext v
    exact ih _ (fun kv hkv a => hstep kv (by simp [hkv]) a)


/-- the `__dict__` of a Tag object whose `attrs` / `children` are the objects `a` / `k` -/
def tagObjC08b (nm : Str) (ws : Bool) (a k : Nat) : PVal :=
  .obj "Tag" [("name", .str nm), ("add_ws", .bool ws), ("attrs", mkRefC08b "TagAttrDict" a),
              ("children", mkRefC08b "TagList" k), ("prev_displayhook", .none)]

/-- the heap holds a tag: its Tag object `i`, its TagAttrDict `a` with the entries `attrs`, its TagList `k` with the items `kids` -/
structure TagAtC08b (H : List PVal) (i a k : Nat) (nm : Str) (ws : Bool) (attrs : List (Str × PVal)) (kids : List PVal) :
    Prop where
  tag : H[i]? = some (tagObjC08b nm ws a k)
  attrs : H[a]? = some (.dict attrs)
  kids : H[k]? = some (.obj "TagList" [("data", .list kids)])

theorem hObjDictUpdate_ok (H : List PVal) (c : String) (i : Nat) (o d o' : PVal) (h : H[i]? = some o)
    (hu : pyObjDictUpdateC08b o d = .ok o') :
    hObjDictUpdateC08b (mkRefC08b c i) d H = .ok (⟨⟩, H.set i o') := by
  unfold hObjDictUpdateC08b
  rw [HMC08b.run_bind_ok (hDeref_ok H c i _ h)]
  simp only [hu, HMC08b.lift_ok, pure_bind]
  exact hStore_ok H c i o' (getElem?_lt h)

theorem hCopyField_str (s : Str) : hCopyFieldC08b (.str s) = pure (.str s) := rfl
theorem hCopyField_bool (b : Bool) : hCopyFieldC08b (.bool b) = pure (.bool b) := rfl
theorem hCopyField_none : hCopyFieldC08b .none = pure .none := rfl

theorem hCopyObj_attrs (H : List PVal) (a : Nat) (kvs : List (Str × PVal)) (h : H[a]? = some (.dict kvs)) :
    hCopyFieldC08b (mkRefC08b "TagAttrDict" a) H = .ok (mkRefC08b "TagAttrDict" H.length, H ++ [.dict kvs]) := by
  have : hCopyFieldC08b (mkRefC08b "TagAttrDict" a) = hCopyObjC08b (mkRefC08b "TagAttrDict" a) := by
    simp [hCopyFieldC08b, mkRefC08b, refIdC08b]
  rw [this]
  unfold hCopyObjC08b
  rw [HMC08b.run_bind_ok (hDeref_ok H _ a _ h)]
  rfl

theorem hCopyObj_dict (H : List PVal) (a : Nat) (kvs : List (Str × PVal)) (h : H[a]? = some (.dict kvs)) :
    hCopyFieldC08b (mkRefC08b "dict" a) H = .ok (mkRefC08b "dict" H.length, H ++ [.dict kvs]) := by
  have : hCopyFieldC08b (mkRefC08b "dict" a) = hCopyObjC08b (mkRefC08b "dict" a) := by
    simp [hCopyFieldC08b, mkRefC08b, refIdC08b]
  rw [this]
  unfold hCopyObjC08b
  rw [HMC08b.run_bind_ok (hDeref_ok H _ a _ h)]
  rfl

theorem hCopyObj_taglist (H : List PVal) (k : Nat) (xs : List PVal) (h : H[k]? = some (.obj "TagList" [("data", .list xs)])) :
    hCopyFieldC08b (mkRefC08b "TagList" k) H
      = .ok (mkRefC08b "TagList" H.length, H ++ [.obj "TagList" [("data", .list xs)]]) := by
  have : hCopyFieldC08b (mkRefC08b "TagList" k) = hCopyObjC08b (mkRefC08b "TagList" k) := by
    simp [hCopyFieldC08b, mkRefC08b, refIdC08b]
  rw [this]
  unfold hCopyObjC08b
  rw [HMC08b.run_bind_ok (hDeref_ok H _ k _ h)]
  rfl


end HtmlVerif.SrcTie
