/-
Primitives of the Python fragment used by the C08b translations (harness/pytr_c08b.py): the small methods of `HTML` /
`HTMLDependency` and the copy functions `Tag.__copy__`, `HTMLDocument.__copy__`, `_copy_tag_nodes`,
`HTMLDependency.__copy__`.  Same contract as Py/Prim.lean: what CPython does on that argument shape, the exception kind
CPython raises, or `unsupported` (never a claim about Python).  Every clause was checked against /venv/bin/python
(harness/srctie_c08b.py generates each argument shape in every run; the `src` / `srcc08b` ops compare the answers).

Two levels.

**By value** (`PyM`).  A `PVal` has no identity, so `copy(x)` of a value without a translated `__copy__` is the value
(`Py.pyCopy`, Py/PrimC10.lean); a *class* is the value `.obj "type" [("__name__", .str name)]`; `cls.__new__(cls)` is the
empty instance `.obj name []`.  What the by-value translations can say is "the copy has the same class, the same fields
in the same order, and the same values".

**With identity** (`HMC08b`).  The copy functions are translated a second time, in state-passing style over a *heap*: a
list of objects, the identity of an object is its index, `cls.__new__(cls)` and `copy(ref)` append a new object (so the
length of the heap is the fresh-id counter of Model/Ident.lean).  A *reference* to object `n` of class `C` is
`.obj C [("__id__", .int n)]` (as in Py/PrimC17.lean); the object itself — `heap[n]` — is `.obj C fields` for an instance,
`.dict kvs` for a `TagAttrDict` / `dict`, `.list xs` for a `list`.  Field values and items are immutable values or
references.  In this translation every attribute load / store and every item store is a heap operation, so no
no-aliasing condition is needed: sharing is represented, and "the copy shares no mutable object with the original" is a
statement about ids.
-/
import HtmlVerif.Py.Prim
import HtmlVerif.Py.PrimC08
import HtmlVerif.Py.PrimC10

namespace HtmlVerif.Py
open HtmlVerif

/-! ## by value -/

/-- `UserString.__init__(self, seq)` on a new (or existing) `HTML` instance: `self.data = seq` for a `str`,
    `seq.data[:]` for a `UserString`, `str(seq)` otherwise.  The new instance `HTML.__new__(HTML)` is `.obj "HTML" []`. -/
def pyUserStringInitC08b (self seq : PVal) : PyM PVal :=
  let isHtml := match self with
    | .obj "HTML" [] => true
    | .html _ => true
    | _ => false
  if isHtml then
    match seq with
    | .str s => pure (.html s)
    | .html s => pure (.html s)
    | v => do
      match ← pyStr v with
      | .str s => pure (.html s)
      | _ => throw .unsupported
  else throw .unsupported

/-- `str(v)` where the translated `Tag.__str__` / `TagList.__str__` are at hand: decided by the class of `v` at run time;
    every other value is `Py.pyStr` -/
def pyStrDispC08b (tagStr listStr : PVal → PyM PVal) (v : PVal) : PyM PVal :=
  match v with
  | .obj "Tag" _ => tagStr v
  | .obj "TagList" _ => listStr v
  | _ => pyStr v

/-- a class object -/
def mkClassC08b (name : String) : PVal := .obj "type" [("__name__", .str name.toList)]

/-- the name of a class object -/
def classNameC08b : PVal → Option String
  | .obj "type" [("__name__", .str n)] => some (String.ofList n)
  | _ => Option.none

/-- `x.__class__` for an instance (also a *reference* to an instance: it carries the class) of a class of the universe
    (class names identify classes); `HTML` for an `HTML`.  The built-in kinds are not covered (`.dict` may be a `dict`
    or a `TagAttrDict`). -/
def pyClassAttrC08b : PVal → PyM PVal
  | .obj c fs =>
    if c == "type" || fs.any (fun f => pseudoField f.1) then throw .unsupported else pure (mkClassC08b c)
  | .html _ => pure (mkClassC08b "HTML")
  | _ => throw .unsupported

/-- classes of the library that define no `__new__` (nor do their bases): `C.__new__(C)` is `object.__new__(C)`, a new
    instance with an empty `__dict__` (checked on the source by the translator for the class of the method; checked
    here against the interpreter for each name) -/
def plainNewC08b (c : String) : Bool :=
  c == "Tag" || c == "HTMLDocument" || c == "HTMLDependency" || c == "MetadataNode" || c == "TagList"

/-- `cls.__new__(arg)` with `cls` and `arg` the same class -/
def pyNewC08b (cls arg : PVal) : PyM PVal :=
  match classNameC08b cls, classNameC08b arg with
  | some c, some a => if c == a && plainNewC08b c then pure (.obj c []) else throw .unsupported
  | _, _ => throw .unsupported

/-- `x.__dict__.update(d)` on an instance: the new instance (`d` a dict with `str` keys) -/
def pyObjDictUpdateC08b (x d : PVal) : PyM PVal :=
  match x, d with
  | .obj c fs, .dict kvs =>
    if c == "type" || fs.any (fun f => pseudoField f.1) then throw .unsupported
    else pure (.obj c (kvs.foldl (fun acc kv => fieldSet (String.ofList kv.1) kv.2 acc) fs))
  | _, _ => throw .unsupported

/-- instances whose `copy()` runs a translated `__copy__` -/
def hasCopyMethodC08b (c : String) : Bool := c == "Tag" || c == "HTMLDependency" || c == "HTMLDocument"

/-- `copy(v)` for a field value inside `Tag.__copy__` / `HTMLDocument.__copy__`: a value whose class has a translated
    `__copy__` (a Tag stored in a field of a Tag) is not covered there; everything else is `Py.pyCopy` -/
def pyCopyFieldC08b (v : PVal) : PyM PVal :=
  match v with
  | .obj c _ => if hasCopyMethodC08b c then throw .unsupported else pyCopy v
  | _ => pyCopy v

/-- `copy(v)` where the translated `Tag.__copy__` / `HTMLDependency.__copy__` are at hand: decided by the class of `v` at
    run time (like `DISPATCH` for ordinary methods) -/
def pyCopyDispC08b (tagCopy depCopy : PVal → PyM PVal) (v : PVal) : PyM PVal :=
  match v with
  | .obj "Tag" _ => tagCopy v
  | .obj "HTMLDependency" _ => depCopy v
  | .obj "HTMLDocument" _ => throw .unsupported
  | _ => pyCopy v

mutual
  /-- plain data: None, bool, int, str, and lists / tuples / dicts of plain data (what `source`, `script`, `stylesheet`,
      `meta` of a dependency hold) -/
  def plainDataC08b : PVal → Bool
    | .none => true
    | .bool _ => true
    | .int _ => true
    | .str _ => true
    | .list xs => plainDataListC08b xs
    | .tuple xs => plainDataListC08b xs
    | .dict kvs => plainDataKvsC08b kvs
    | _ => false
  def plainDataListC08b : List PVal → Bool
    | [] => true
    | x :: r => plainDataC08b x && plainDataListC08b r
  def plainDataKvsC08b : List (Str × PVal) → Bool
    | [] => true
    | kv :: r => plainDataC08b kv.2 && plainDataKvsC08b r
end

/-- `deepcopy(v)` by value: plain data is equal to its deep copy; anything else (instances: `__deepcopy__`, `__reduce_ex__`)
    is not covered -/
def pyDeepcopyC08b (v : PVal) : PyM PVal :=
  if plainDataC08b v then pure v else throw .unsupported

/-! ## with identity -/

/-- computations over the heap of objects (state-passing; an exception discards the state: none of the translated
    functions catches one) -/
def HMC08b (α : Type) : Type := List PVal → Except PyErr (α × List PVal)

namespace HMC08b

@[inline] protected def pure {α} (a : α) : HMC08b α := fun H => .ok (a, H)

@[inline] protected def bind {α β} (x : HMC08b α) (f : α → HMC08b β) : HMC08b β := fun H =>
  match x H with
  | .ok (a, H') => f a H'
  | .error e => .error e

instance : Monad HMC08b where
  pure := HMC08b.pure
  bind := HMC08b.bind

instance : MonadExceptOf PyErr HMC08b where
  throw e := fun _ => .error e
  tryCatch x h := fun H =>
    match x H with
    | .ok r => .ok r
    | .error e => h e H

/-- a state-free computation of the fragment: the heap is untouched -/
instance : MonadLift PyM HMC08b where
  monadLift x := fun H =>
    match x with
    | .ok a => .ok (a, H)
    | .error e => .error e

end HMC08b

/-- a reference to the heap object `n`, of class `cls` -/
def mkRefC08b (cls : String) (n : Nat) : PVal := .obj cls [("__id__", .int n)]

/-- the identity a reference names -/
def refIdC08b : PVal → Option Nat
  | .obj _ [("__id__", .int n)] => if n < 0 then Option.none else some n.toNat
  | _ => Option.none

/-- the class a reference names -/
def refClassC08b : PVal → String
  | .obj c _ => c
  | _ => ""

/-- the object a reference names (a dangling reference is outside the fragment) -/
def hDerefC08b (r : PVal) : HMC08b PVal := fun H =>
  match refIdC08b r with
  | some n => match H[n]? with
    | some o => .ok (o, H)
    | Option.none => .error .unsupported
  | Option.none => .error .unsupported

/-- a new object: its reference -/
def hAllocC08b (cls : String) (o : PVal) : HMC08b PVal := fun H => .ok (mkRefC08b cls H.length, H ++ [o])

/-- replace the object a reference names -/
def hStoreC08b (r : PVal) (o : PVal) : HMC08b PUnit := fun H =>
  match refIdC08b r with
  | some n => if n < H.length then .ok (⟨⟩, H.set n o) else .error .unsupported
  | Option.none => .error .unsupported

/-- `cls.__new__(arg)`: a new object with an empty `__dict__` -/
def hNewC08b (cls arg : PVal) : HMC08b PVal := do
  match ← (pyNewC08b cls arg : PyM PVal) with
  | .obj c fs => hAllocC08b c (.obj c fs)
  | _ => throw .unsupported

/-- `x.name` (load): through a reference the attribute is read from the heap object; an `HTML` has `data` -/
def hGetAttrC08b (x : PVal) (name : String) : HMC08b PVal := do
  match refIdC08b x with
  | some _ => pyGetAttr (← hDerefC08b x) name
  | Option.none =>
    match x with
    | .obj _ _ => throw .unsupported        -- an instance without identity: not part of this level
    | v => pyGetAttr v name

/-- `x.name = v` through a reference -/
def hSetAttrC08b (x : PVal) (name : String) (v : PVal) : HMC08b PUnit := do
  match ← hDerefC08b x with
  | .obj c fs => hStoreC08b x (.obj c (fieldSet name v fs))
  | _ => throw .attributeError               -- a `dict` / `list` object has no instance attributes

/-- `x.__dict__` through a reference (a snapshot: the translated functions do not change `x` while they iterate) -/
def hObjDictC08b (x : PVal) : HMC08b PVal := do
  match ← hDerefC08b x with
  | .obj c fs => pyObjDict (.obj c fs)
  | _ => throw .unsupported

/-- `x.__dict__.update(d)` through a reference -/
def hObjDictUpdateC08b (x d : PVal) : HMC08b PUnit := do
  hStoreC08b x (← pyObjDictUpdateC08b (← hDerefC08b x) d)

/-- the items of a `UserList` object or a `list` object -/
def hItemsC08b (x : PVal) : HMC08b (List PVal) := do
  match ← hDerefC08b x with
  | .list xs => pure xs
  | o => match userListData? o with
    | some xs => pure xs
    | Option.none => throw .typeError

/-- `enumerate(x)` for a reference to a `UserList` / `list` object, as a list of pairs (a snapshot: the loops of the
    translated functions assign only to the position they have just read) -/
def hEnumerateC08b (x : PVal) : HMC08b PVal := do
  pyEnumerate (.list (← hItemsC08b x))

/-- `x[i] = v` through a reference to a `UserList` (`self.data[i] = v`) or `list` object -/
def hSetItemUC08b (x i v : PVal) : HMC08b PUnit := do
  hStoreC08b x (← pySetItemU (← hDerefC08b x) i v)

/-- what `copy(r)` does for a reference to an object whose class has no translated `__copy__`:
    * `TagAttrDict` / `dict`: a new dict with the same entries (`copy` rebuilds a `TagAttrDict` through `__setitem__`;
      stored names and values are fixed points of the normalisation — Props/SrcAttrs.lean);
    * `TagList`: `UserList.__copy__` — a new instance, the same `__dict__` entries, `data` sliced (a new list holding
      the same items);
    * `list`: a new list holding the same items;
    * `MetadataNode`: the default `copy` — a new instance with the same `__dict__` entries.
    Any other class: not covered. -/
def hCopyObjC08b (r : PVal) : HMC08b PVal := do
  let o ← hDerefC08b r
  match refClassC08b r, o with
  | "TagAttrDict", .dict kvs => hAllocC08b "TagAttrDict" (.dict kvs)
  | "dict", .dict kvs => hAllocC08b "dict" (.dict kvs)
  | "list", .list xs => hAllocC08b "list" (.list xs)
  | "TagList", .obj "TagList" fs =>
    match userListData? (.obj "TagList" fs) with
    | some _ => hAllocC08b "TagList" (.obj "TagList" fs)
    | Option.none => throw .unsupported
  | "MetadataNode", .obj "MetadataNode" fs => hAllocC08b "MetadataNode" (.obj "MetadataNode" fs)
  | _, _ => throw .unsupported

/-- `copy(v)` for a field value inside `Tag.__copy__` / `HTMLDocument.__copy__`: an immutable value (None, bool, int,
    float, str, `HTML`, tuple) is returned as it is; a reference to an object goes through `hCopyObjC08b`; containers and
    instances *without identity* are not part of this level -/
def hCopyFieldC08b (v : PVal) : HMC08b PVal :=
  match v with
  | .none => pure v
  | .bool _ => pure v
  | .int _ => pure v
  | .float _ => pure v
  | .str _ => pure v
  | .html _ => pure v
  | .tuple _ => pure v
  | .obj _ _ => if (refIdC08b v).isSome then hCopyObjC08b v else throw .unsupported
  | _ => throw .unsupported

/-- `copy(v)` where the translated `__copy__` methods are at hand -/
def hCopyDispC08b (tagCopy depCopy : PVal → HMC08b PVal) (v : PVal) : HMC08b PVal :=
  match v with
  | .obj "Tag" _ => if (refIdC08b v).isSome then tagCopy v else throw .unsupported
  | .obj "HTMLDependency" _ => if (refIdC08b v).isSome then depCopy v else throw .unsupported
  | .obj "HTMLDocument" _ => throw .unsupported
  | _ => hCopyFieldC08b v

/-- `deepcopy(v)` of plain data held in heap objects (`copy._deepcopy_list` / `_deepcopy_dict`): the new `list` / `dict`
    object is created first (empty), then the items / values are deep-copied in order and put in; immutable plain values
    (None, bool, int, str) are returned as they are.  Fuel bounds the nesting.  CPython's memo makes a sub-object that is
    reachable twice be copied once; here the containers are required to form a tree: an object met a second time
    (`seen`) is `unsupported`. -/
def hDeepcopyGoC08b : Nat → PVal → List Nat → HMC08b (PVal × List Nat)
  | 0, _, _ => throw PyErr.fuel
  | fuel + 1, v, seen =>
    match v with
    | .none => pure (v, seen)
    | .bool _ => pure (v, seen)
    | .int _ => pure (v, seen)
    | .str _ => pure (v, seen)
    | .obj c _ =>
      match refIdC08b v with
      | some n =>
        if seen.contains n then throw PyErr.unsupported
        else do
          let o ← hDerefC08b v
          match c, o with
          | "list", .list xs => do
            let r ← hAllocC08b "list" (.list [])
            let mut acc : List PVal := []
            let mut sn : List Nat := n :: seen
            for x in xs do
              let p ← hDeepcopyGoC08b fuel x sn
              acc := acc ++ [p.1]
              sn := p.2
            hStoreC08b r (.list acc)
            pure (r, sn)
          | "dict", .dict kvs => do
            let r ← hAllocC08b "dict" (.dict [])
            let mut acc : List (Str × PVal) := []
            let mut sn : List Nat := n :: seen
            for kv in kvs do
              let p ← hDeepcopyGoC08b fuel kv.2 sn
              acc := acc ++ [(kv.1, p.1)]
              sn := p.2
            hStoreC08b r (.dict acc)
            pure (r, sn)
          | _, _ => throw PyErr.unsupported
      | Option.none => throw PyErr.unsupported
    | _ => throw PyErr.unsupported

def hDeepcopyC08b (v : PVal) : HMC08b PVal := do
  let r ← hDeepcopyGoC08b 64 v []
  pure r.1

end HtmlVerif.Py
