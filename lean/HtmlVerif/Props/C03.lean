/-
C03 — Attribute values are inert, single-line, and decode to the original.
(The merge clause — several values for one name, including HTML() ones — is in `C03_merge*` below and
relies on `mergeVal` of Model/Attrs.lean.)
-/
import HtmlVerif.Lemmas.Refs
import HtmlVerif.Lemmas.Decode
import HtmlVerif.Lemmas.Leaves
import HtmlVerif.Model.Attrs

namespace HtmlVerif.C03
open HtmlVerif

def cfg : Cfg :=
  { void := Generated.voidNames, noesc := Generated.noescNames,
    textTbl := Generated.textTbl, attrTbl := Generated.attrTbl }

theorem C03_attrTbl_ok : TblOk Generated.attrTbl = true := attrTbl_ok

/-- `html_escape(s, attr=True)` as written is the seven-character map of the statement -/
theorem C03_esc_attr_as_written (s : Str) : htmlEscapeT Generated.attrTbl s = s.flatMap escAttrChar :=
  escapeAttr_eq s

/-- every character other than & < > " ' CR LF is unchanged -/
theorem C03_esc_attr_rest (c : Char)
    (h : c ≠ '&' ∧ c ≠ '<' ∧ c ≠ '>' ∧ c ≠ '"' ∧ c ≠ '\'' ∧ c ≠ '\r' ∧ c ≠ '\n') : escAttrChar c = [c] := by
  obtain ⟨h1, h2, h3, h4, h5, h6, h7⟩ := h
  simp [escAttrChar, h1, h2, h3, h4, h5, h6, h7]

/-- what is written between the quotes for a plain value decodes to exactly the stored value -/
theorem C03_decode (s : Str) : decodeCharRefs (emitAttrVal cfg (.plain s)) = s := by
  show decodeCharRefs (htmlEscapeT Generated.attrTbl s) = s
  rw [C03_esc_attr_as_written]; exact decode_escAttr s

/-- it can never terminate the value (`"`), add an attribute or close the tag (`"`, `'`, `<`, `>`), or break
    the opening tag across lines (CR, LF) -/
theorem C03_inert (s : Str) (d : Char)
    (hd : d = '<' ∨ d = '>' ∨ d = '"' ∨ d = '\'' ∨ d = '\r' ∨ d = '\n') :
    d ∉ emitAttrVal cfg (.plain s) := by
  show d ∉ htmlEscapeT Generated.attrTbl s
  rw [C03_esc_attr_as_written]; exact escAttr_inert s d hd

/-- nor forge a character reference: every `&` written begins one of the seven references -/
theorem C03_amps (s : Str) : ampsOk attrRefs (emitAttrVal cfg (.plain s)) = true := by
  show ampsOk attrRefs (htmlEscapeT Generated.attrTbl s) = true
  rw [C03_esc_attr_as_written]; exact escAttr_ampsOk s

/-- the attribute writer: one ` name="value"` per stored attribute, in stored order, value through `emitAttrVal` -/
theorem C03_writer (cfg : Cfg) (as : Attrs) :
    renderAttrs cfg as = as.flatMap fun kv => ' ' :: kv.1 ++ '=' :: '"' :: emitAttrVal cfg kv.2 ++ ['"'] := by
  induction as with
  | nil => rfl
  | cons kv r ih => obtain ⟨k, v⟩ := kv; simp [renderAttrs, ih]

/-- value normalisation: True ↦ empty value, None/False ↦ attribute omitted, numbers ↦ their text, str/HTML kept -/
theorem C03_norm :
    normAttrValue .boolT = .ok (some (.plain [])) ∧ normAttrValue .none = .ok none ∧
    normAttrValue .boolF = .ok none ∧ (∀ t, normAttrValue (.num t) = .ok (some (.plain t))) ∧
    (∀ s, normAttrValue (.str s) = .ok (some (.plain s))) ∧ (∀ s, normAttrValue (.html s) = .ok (some (.html s))) ∧
    normAttrValue .bad = .error .typeError := by
  simp [normAttrValue]

/-! ### every tag, in every position, writes its attributes through that writer -/

def Piece.opn? : Piece → Option (Str × Attrs)
  | .opn n _ a _ => some (n, a)
  | _ => none

mutual
  /-- (name, attributes) of every tag the renderer reaches, document order -/
  def opens : Node → List (Str × Attrs)
    | .tag name _ attrs kids => (name, attrs) :: opensKids kids
    | _ => []
  def opensKids : Nodes → List (Str × Attrs)
    | .nil => []
    | .cons h t => opens h ++ opensKids t
end

/-- an opening-tag piece is `<name` followed by the writer's output and `>` or `/>` -/
theorem C03_opn_realize (cfg : Cfg) (n : Str) (w : Bool) (a : Attrs) (sc : Bool) :
    (Piece.opn n w a sc).realize cfg = '<' :: n ++ renderAttrs cfg a ++ (if sc then ['/', '>'] else ['>']) := rfl

end HtmlVerif.C03

namespace HtmlVerif.C03
open HtmlVerif

theorem opensKids_eq_visible (ks : Nodes) : opensKids ks = ks.visible.flatMap opens := by
  induction ks using Nodes.rec (motive_1 := fun _ => True) with
  | nil => simp [opensKids, Nodes.visible]
  | cons h t _ ih => cases h <;> simp_all [opensKids, Nodes.visible, Node.isMeta, opens]
  | _ => trivial

@[simp] theorem opn?_opn (n : Str) (w : Bool) (a : Attrs) (sc : Bool) : Piece.opn? (.opn n w a sc) = some (n, a) := rfl
@[simp] theorem opn?_cls (n : Str) (w : Bool) : Piece.opn? (.cls n w) = none := rfl
@[simp] theorem opn?_ws (s : Str) : Piece.opn? (.ws s) = none := rfl
@[simp] theorem opn?_txt (s : Str) : Piece.opn? (.txt s) = none := rfl
@[simp] theorem opn?_raw (s : Str) : Piece.opn? (.raw s) = none := rfl
@[simp] theorem opn?_textP (b : Bool) (s : Str) : Piece.opn? (textP b s) = none := by unfold textP; split <;> rfl
@[simp] theorem filterMap_opn_wsP (s : Str) : (wsP s).filterMap Piece.opn? = [] := by
  unfold wsP; split <;> simp [List.filterMap_cons]

mutual
  /-- every attribute position: each tag the renderer reaches — at any depth, on every path — writes exactly
      one opening-tag piece carrying its own stored attributes, in document order; by `C03_opn_realize` and
      `C03_writer` that piece is `<name` + one ` k="emit v"` per attribute + `>` -/
  theorem C03_every_tag (cfg : Cfg) (n : Node) (i : Nat) (e : Str) :
      (n.pieces cfg i e).filterMap Piece.opn? = opens n := by
    cases n with
    | tag name ws attrs kids =>
      have hk := C03_every_tag_kids cfg kids (i + 1) e true ws (!cfg.noesc.contains name)
      have hvis := opensKids_eq_visible kids
      simp only [List.contains_eq_mem] at hk
      simp only [Node.pieces, opens]
      by_cases h0 : kids.visible.isEmpty = true
      · have hnil : kids.visible = [] := by simpa using h0
        rw [hvis, hnil]
        by_cases hv : name ∈ cfg.void <;> simp [h0, hv, List.filterMap_cons]
      · simp only [h0]
        cases h1 : inlineChild? kids.visible with
        | some c =>
          rw [hvis]
          rcases inlineChild?_some h1 with ⟨hc, hvv⟩ | ⟨hc, hvv⟩ <;> simp [hvv, opens, List.filterMap_cons]
        | none => cases ws <;> simp [hk, List.filterMap_cons]
    | _ => simp [Node.pieces, opens]
  theorem C03_every_tag_kids (cfg : Cfg) (ks : Nodes) (i : Nat) (e : Str) (first prevWs esc : Bool) :
      (ks.piecesKids cfg i e first prevWs esc).filterMap Piece.opn? = opensKids ks := by
    cases ks with
    | nil => simp [Nodes.piecesKids, opensKids]
    | cons h t =>
      have ht := C03_every_tag_kids cfg t
      cases h with
      | tag n w a k =>
        have hh := C03_every_tag cfg (.tag n w a k)
        simp only [Nodes.piecesKids, opensKids]
        cases first <;> cases prevWs <;> cases w <;> simp [ht, hh, List.filterMap_cons]
      | _ =>
        simp only [Nodes.piecesKids, opensKids]
        cases first <;> cases prevWs <;> simp [ht, opens, List.filterMap_cons]
end

end HtmlVerif.C03

namespace HtmlVerif.C03
open HtmlVerif

/-- what one merge step writes: the two operands' own emissions separated by one space.
    (`hsp`: a space is not a key of the attribute table.) -/
theorem emit_mergeVal (cfg : Cfg) (hsp : htmlEscapeT cfg.attrTbl [' '] = [' ']) (a b : AttrVal) :
    emitAttrVal cfg (mergeVal cfg a b) = emitAttrVal cfg a ++ ' ' :: emitAttrVal cfg b := by
  cases a <;> cases b <;> simp [mergeVal, emitAttrVal]
  rename_i s t
  have : s ++ ' ' :: t = s ++ ([' '] ++ t) := by simp
  rw [this, htmlEscapeT_append, htmlEscapeT_append, hsp]; simp

/-- all values given for one name in one call, merged left to right as `update` does -/
def mergeAll (cfg : Cfg) (v : AttrVal) (vs : List AttrVal) : AttrVal := vs.foldl (mergeVal cfg) v

/-- several values for one name — any mix of plain and HTML() — are written as the operands' own emissions
    joined by single spaces: each plain operand through the seven-character map, HTML() operands verbatim -/
theorem C03_merge (cfg : Cfg) (hsp : htmlEscapeT cfg.attrTbl [' '] = [' ']) (v : AttrVal) (vs : List AttrVal) :
    emitAttrVal cfg (mergeAll cfg v vs) = joinStr [' '] ((v :: vs).map (emitAttrVal cfg)) := by
  induction vs generalizing v with
  | nil => simp [mergeAll, joinStr]
  | cons w ws ih =>
    have := ih (mergeVal cfg v w)
    simp only [mergeAll, List.foldl_cons] at this ⊢
    rw [this]
    cases ws with
    | nil => simp [joinStr, emit_mergeVal cfg hsp]
    | cons x xs => simp [joinStr, emit_mergeVal cfg hsp]

/-- the side condition holds for the table in the source -/
theorem C03_space_not_key : htmlEscapeT Generated.attrTbl [' '] = [' '] := by decide +kernel

/-- … so for the real tables a merged value can never terminate the attribute either -/
theorem C03_merge_inert (v : AttrVal) (vs : List AttrVal) (hplain : ∀ x ∈ v :: vs, ∃ s, x = .plain s) :
    '"' ∉ emitAttrVal cfg (mergeAll cfg v vs) := by
  rw [C03_merge cfg C03_space_not_key]
  have key : ∀ (l : List AttrVal), (∀ x ∈ l, ∃ s, x = AttrVal.plain s) →
      '"' ∉ joinStr [' '] (l.map (emitAttrVal cfg)) := by
    intro l
    induction l with
    | nil => intro _; simp [joinStr]
    | cons x xs ih =>
      intro h
      obtain ⟨s, rfl⟩ := h x (by simp)
      have hx : '"' ∉ emitAttrVal cfg (.plain s) := C03_inert s '"' (by simp)
      have hxs := ih (fun y hy => h y (by simp [hy]))
      cases xs with
      | nil => simpa [joinStr] using hx
      | cons y ys =>
        simp only [List.map_cons, joinStr] at hxs ⊢
        simp only [List.mem_append, not_or]
        exact ⟨⟨hx, by simp⟩, hxs⟩
  exact key (v :: vs) hplain

example : mergeAll cfg (.plain ['a', '"']) [.html ['x']] = .html ['a', '&', 'q', 'u', 'o', 't', ';', ' ', 'x'] := by
  decide +kernel

end HtmlVerif.C03

namespace HtmlVerif.C03
open HtmlVerif

/-- the statement in its own words for a plain attribute value: each of & < > " ' CR LF appears as a character
    reference that decodes to it, every other character unchanged (the predicate evaluated on the real output) -/
theorem C03_statement (s : Str) : validEscape attrSpecials s (emitAttrVal cfg (.plain s)) = true := by
  show validEscape attrSpecials s (htmlEscapeT Generated.attrTbl s) = true
  rw [C03_esc_attr_as_written]; exact validEscape_attr s

end HtmlVerif.C03
