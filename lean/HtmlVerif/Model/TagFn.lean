/-
The generated wrappers of tags.py / svg.py and the `_add_ws` check of Tag.__init__ (_core.py:670-673).
-/
import HtmlVerif.Generated.TagFns

namespace HtmlVerif
open HtmlVerif.Generated

/-- `_add_ws` as received by `Tag.__init__`: a bool, or anything else -/
inductive WsArg
  | bool (b : Bool)
  | other

/-- `if not isinstance(_add_ws, bool): raise TypeError(...)`; `self.add_ws = _add_ws` -/
def tagInitWs : WsArg → Option Bool
  | .bool b => some b
  | .other => none

/-- what a wrapper of canonical shape returns for its name / whitespace flag:
    `return Tag("<lit>", *args, _add_ws=_add_ws, **kwargs)` with `_add_ws` defaulting to `dflt` -/
def callWrapper (r : TagFnRow) (ws : Option WsArg) : Option (Str × Bool) :=
  (tagInitWs (ws.getD (.bool r.dflt))).map fun b => (r.tagLit, b)

def allFns : List TagFnRow := htmlFns ++ svgFns

def findFn (modName fnName : Str) : Option TagFnRow :=
  allFns.find? fun r => r.modName == modName && r.fnName == fnName

end HtmlVerif
