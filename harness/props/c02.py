"""C02 — Plain-text children are inert data."""
from __future__ import annotations

import itertools

import core
import gen
import subst
from wire import es, enode

PID = "C02"
MANIFEST = dict(
    text="Lean theorems: html_escape as written (regex guard + sequential str.replace in table order, tables regenerated from the "
         "source) equals the per-character map &→&amp; <→&lt; >→&gt; (C02_esc_text_as_written, via TblOk by decide +kernel); its output "
         "decodes to the original (C02_esc_text_decode), contains no < or > (C02_esc_text_inert), every & starts one of the three "
         "references (C02_esc_text_amps); tree level: every text leaf in an escaping context is emitted exactly once, in order, through "
         "that map on every rendering path (C02_every_position) and nothing else depends on text (C02_skeleton) — for all trees/strings. "
         "Tie: html_escape compared with the model per code point (all scalar values in thorough) and on all strings ≤6 over the "
         "metacharacter alphabet; tree level by layout-independent marker substitution on the real renderer for every child-adding API.",
    design="DESIGN.md §6 C02",
    note="Modelled, not verified: re.search over an alternation of single-character literals; str.replace on one-character keys; str() of numbers "
         "(numbers reach the renderer as their str() text, normalisation is C14).",
    technique="Lean 4 proof (list induction, mutual structural induction over the tree, decide +kernel for table side conditions) + differential correspondence",
)
PROP_FILES = ["HtmlVerif/Props/C02.lean", "HtmlVerif/Props/SrcEscape.lean", "HtmlVerif/Props/SrcRender.lean"]
ALPHA = "&<>;#a"


def text_trees(rng, n, all_fns):
    for _ in range(n):
        yield gen.rand_tag(rng, rng.randint(1, 6), leaves=("text", "text", "text", "html", "robj", "meta"), all_names=all_fns)


def stale_mode_oracle(ck) -> int:
    """whether text is escaped follows from what the element IS when it is rendered, not from what it was when it was built:
    a tag renamed through the public `name` attribute, a copy that is renamed, a child list moved to another tag — each must
    render exactly like a tag built afresh with that name and those children (the fresh build is what the model stream covers)"""
    import copy as _copy
    from htmltools import HTML, Tag, TagList
    n = 0
    names = ["script", "style", "p", "div", "span", "pre", "Script"]
    kidsets = [["a<b", "c&d"], ["</p><img src=x onerror=alert(1)>", Tag("b", "x<y")], ["1 < 2", HTML("<i>ok</i>"), "&amp;"], ["only<"], []]

    def fresh(name, kids, ws):
        return Tag(name, *[_copy.copy(k) if isinstance(k, Tag) else k for k in kids], _add_ws=ws)

    for old in names:
        for new in names:
            if old == new:
                continue
            for ki, kids in enumerate(kidsets):
                for how in ("rename", "rename after render", "copy then rename", "move child list", "append after rename"):
                    n += 1
                    ck.holds_checked += 1
                    try:
                        t = fresh(old, kids, True)
                        extra = []
                        if how == "rename":
                            t.name = new
                            got_t = t
                        elif how == "rename after render":
                            t.get_html_string()
                            str(t)
                            t.name = new
                            got_t = t
                        elif how == "copy then rename":
                            got_t = _copy.copy(t)
                            got_t.name = new
                        elif how == "move child list":
                            got_t = Tag(new, _add_ws=True)
                            got_t.children = t.children
                        else:
                            t.name = new
                            t.append("late<&>")
                            extra = ["late<&>"]
                            got_t = t
                        got = (got_t.get_html_string(), str(got_t), got_t.render()["html"])
                        ref = fresh(new, kids + extra, True)
                        want = (ref.get_html_string(), str(ref), ref.render()["html"])
                    except Exception as e:  # noqa: BLE001
                        ck.py_violation(f"stale_mode {old}->{new} kids#{ki} {how}", f"raised {type(e).__name__}: {e}", f"{how} raised", py=f"{old} -> {new}, {how}")
                        continue
                    if got != want:
                        ck.py_violation(f"stale_mode {old}->{new} kids#{ki} {how}", got[0][:400],
                                        f"a <{old}> tag turned into <{new}> ({how}) renders {got[0]!r}; a <{new}> tag built afresh with the same children renders {want[0]!r}",
                                        py=f"t = Tag({old!r}, *{kids!r}); t.name = {new!r}   # {how}\nt.get_html_string()")
    ck.exhaustive_scopes.append({"scope": "text mode follows the element as it is: 7 names x 6 other names x 5 child lists x {rename, rename after render, copy then rename, "
                                          "move the child list, append after rename} against a tag built afresh", "n": n, "exhaustive": True})
    return n


def str_subclass_oracle(ck) -> int:
    """a text child may be an instance of a `str` subclass (an Enum member with a str mixin, a label class, numpy.str_): it is
    text like any other string — same output as the plain string with the same characters, on the single-child path, next
    to siblings, and however it was added"""
    from htmltools import Tag, TagList
    n = 0

    class Label(str):
        pass

    class Tagged(str):
        """a str subclass with state of its own and the inherited __str__ (what str() returns IS its characters; a subclass
        that overrides __str__ is outside what the property pins: DESIGN 13.2)"""
        __slots__ = ("note",)

    vals = [Label("a<b"), Label("x & y > z"), Label("&lt;"), Tagged("<i>t</i>"), Tagged("a&amp;b"), Label("")]
    builds = [("only child", lambda v, nm: Tag(nm, v)), ("with siblings", lambda v, nm: Tag(nm, "s", v, Tag("b", v))),
              ("appended", lambda v, nm: (lambda t: (t.append(v), t)[1])(Tag(nm))), ("nested list", lambda v, nm: Tag(nm, [[v]])),
              ("in a TagList", lambda v, nm: TagList(v)), ("inserted first", lambda v, nm: (lambda t: (t.insert(0, v), t)[1])(Tag(nm, "z")))]
    for v in vals:
        plain = str.__str__(v)
        for nm in ("div", "span", "p", "script", "textarea"):
            for bl, b in builds:
                n += 1
                ck.holds_checked += 1
                try:
                    got_o, want_o = b(v, nm), b(plain, nm)
                    got = (got_o.get_html_string(), str(got_o), got_o.render()["html"])
                    want = (want_o.get_html_string(), str(want_o), want_o.render()["html"])
                except Exception as e:  # noqa: BLE001
                    ck.py_violation(f"str_subclass {type(v).__name__} {plain!r} {nm} {bl}", f"raised {type(e).__name__}: {e}", "a str-subclass text child raised", py=bl)
                    continue
                if got != want:
                    ck.py_violation(f"str_subclass {type(v).__name__} {plain!r} {nm} {bl}", got[0][:300],
                                    f"a text child that is an instance of the str subclass {type(v).__name__} ({bl} of <{nm}>) renders {got[0]!r}; the plain string "
                                    f"{plain!r} renders {want[0]!r}",
                                    py=f"class Label(str): pass\nTag({nm!r}, Label({plain!r})).get_html_string()   # {bl}")
    ck.exhaustive_scopes.append({"scope": "str-subclass text children: 6 values (plain subclass, subclass with slots) x 5 element names x 6 ways of adding, "
                                          "against the plain string", "n": n, "exhaustive": True})
    return n


def run(tier: str) -> int:
    import htmltools
    from htmltools import _util
    ck = core.Check(PID, tier, PROP_FILES)
    ck.prepare()
    rng = ck.rng
    ck.rule = ("function level: one case per input string of html_escape(attr=False) — non-trivial = contains one of & < > ; "
               "tree level: one case per (tree, indent, eol, child-adding API) — non-trivial = has a text leaf containing a metacharacter; distinct by wire line")
    lines = []
    # per code point
    if tier == "thorough":
        cps = [c for c in range(0x110000) if not (0xD800 <= c <= 0xDFFF)]
        ck.exhaustive_scopes.append({"scope": "html_escape(chr(c)) for every Unicode scalar value", "n": len(cps), "exhaustive": True})
    else:
        cps = list(range(0x3000)) + [rng.randrange(0x3000, 0x110000) for _ in range(20000)]
        cps = [c for c in cps if not (0xD800 <= c <= 0xDFFF)]
        ck.exhaustive_scopes.append({"scope": "html_escape(chr(c)) for every code point < U+3000 (+20000 sampled above)", "n": 0x3000, "exhaustive": True})
    for c in cps:
        lines.append(f"escape F {format(c, 'x')}")
    L = 6 if tier == "thorough" else 5
    n_short = 0
    for k in range(0, L + 1):
        for tup in itertools.product(ALPHA, repeat=k):
            lines.append("escape F " + es("".join(tup)))
            n_short += 1
    ck.exhaustive_scopes.append({"scope": f"all strings of length <= {L} over {{& < > ; # a}}", "n": n_short, "exhaustive": True})
    for _ in range(ck.budget(5000, 100000)):
        lines.append("escape F " + es(gen.rand_text(rng, 40)))
    impl = core.impl_many(lines)
    for l, im in zip(lines, impl):
        s = l.split(" ", 2)[2]
        nt = any(x in s.split(".") for x in ("26", "3c", "3e"))
        ck.add(l, im, nontrivial=nt, tag="escape")
    ck.add_src(['html_escape', 'normalize_text'])
    ck.extra_cov["stale_mode_cases"] = stale_mode_oracle(ck)
    ck.extra_cov["str_subclass_cases"] = str_subclass_oracle(ck)
    ck.correspond(holds=True)
    # the exported function and the compatibility alias are the same mapping
    ck.holds_checked += 1
    if not (htmltools.html_escape is _util.html_escape and _util._html_escape is _util.html_escape):
        for s in ("&<>", "a&b", "<", ">"):
            if htmltools.html_escape(s) != _util.html_escape(s) or _util._html_escape(s) != _util.html_escape(s):
                ck.py_violation("escape F " + es(s), htmltools.html_escape(s), "exported html_escape / _html_escape alias differ from _util.html_escape")
    # tree level: marker substitution
    fns = gen.fn_catalogue(ck.proof.translate_info)
    cases = []
    bound = 4 if tier == "quick" else 5
    leaves = [("text", "a"), ("text", "<&>"), ("text", "&amp;"), ("html", "<i>"), ("meta", 0)]
    tags = [("div", True), ("span", False), ("br", False), ("script", True)]
    n_ex = 0
    for t in gen.trees_upto(bound, leaves, tags):
        if t[0] == "tag":
            cases.append(("tag", t, 1, "\n"))
            n_ex += 1
    ck.exhaustive_scopes.append({"scope": f"marker substitution on all tag-rooted trees <= {bound} nodes over 4 tag kinds x 5 leaf kinds", "trees": n_ex, "exhaustive": True})
    for t in text_trees(rng, ck.budget(1500, 30000), fns):
        cases.append(("tag", t, rng.choice([0, 1, 3]), rng.choice(["\n", "", "\r\n", "<!>"])))
    for mode in ("ctor", "append", "extend", "insert", "nested", "plus", "radd"):
        for t in text_trees(rng, ck.budget(150, 3000), None):
            cases.append(("via", mode, t, rng.choice([0, 2]), "\n"))
    for _ in range(ck.budget(300, 5000)):
        ks = [gen.rand_node(rng, rng.randint(0, 3), leaves=("text", "text", "html", "meta")) for _ in range(rng.randint(1, 5))]
        cases.append(("list", ks, rng.choice([0, 1]), "\n", rng.random() < 0.5, True))
    for t in gen.alias_trees(rng, ck.budget(300, 4000)):
        cases.append(("tag", t, rng.choice([0, 1]), "\n"))
    ck.exhaustive_scopes.append({"scope": "aliasing stream: one string as HTML(), text, _repr_html_ and attribute values in one tree, lengths " + str(gen.ALIAS_LENGTHS), "exhaustive": False})
    subst.check_cases(ck, cases, {"t"}, "a plain-text child must be emitted as its per-character escape")
    ck.extra_cov["extra_evaluations"] = len(cases)
    ck.extra_cov["tree_cases"] = len(cases)
    ck.distinct_nontrivial += sum(1 for c in cases if _has_meta_text(c))
    return ck.finish()


def _has_meta_text(c) -> bool:
    def f(n):
        if n[0] == "text":
            return any(x in n[1] for x in "&<>")
        if n[0] == "tag":
            return any(f(k) for k in n[4])
        return False
    if c[0] == "tag":
        return f(c[1])
    if c[0] == "via":
        return f(c[2])
    return any(f(k) for k in c[1])
