"""Second half of the C08b translator plug-in (harness/pytr_c08b.py, where the hooks and the documentation are): the
specification of `HTMLDependency.__str__`.  It calls the translated `HTMLDependency.as_html_tags` (harness/pytr_c12.py) and,
through `str()`, `Tag.__str__` / `TagList.__str__` (harness/pytr_c18.py); translation order is registration order and plug-ins
register in file-name order, so this specification lives in a file that sorts after those (nothing else is in this file)."""
from __future__ import annotations


def register(T):
    T.SPECS += [
        T.FnSpec("htmltools/_core.py", "HTMLDependency.__str__", "HTMLDependency_strC08b", group="c08b_depstr"),
    ]
    T.ARITY.update({"HTMLDependency_strC08b": 1})
