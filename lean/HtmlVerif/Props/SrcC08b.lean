/-
Source tie (DESIGN §14) for C08b: the Lean functions that `harness/pytranslate.py` (plug-ins harness/pytr_c08b.py,
pytr_z08b.py) regenerates from the *text* of

  HTML.__init__ / __str__ / __repr__ / _repr_html_, HTMLDependency.__repr__ / __str__,
  Tag.__copy__, HTMLDocument.__copy__, _copy_tag_nodes, HTMLDependency.__copy__

compute what the model says (Model/Ident.lean: `icopyShallow`, `icopy`, `icopyAll`; the HTML value `Node.html s`).

**By value.**  `HTML(x)` is `UserString(str(x))` (`src_HTML_init` = the primitive `mkHTML` every other translation uses for the
constructor call); `str(h)`, `repr(h)`, `h._repr_html_()` are the text (`src_HTML_views` = the primitives `pyStr` / `pyReprHtml`
on an `HTML`); `repr(dep)` is `depReprTextC08b` (a specification function of Lemmas/SrcC08b.lean — the model has none).
The copy functions return an object of the same class with the same fields in the same order and the same values
(`src_Tag_copy_obj`, for *any* instance; `src_copy_tag_nodes`, `src_HTMLDependency_copy` for every tree) — this is all a
universe of values without identity can say: the structural half of C08 (`C08_tagify_refines`, `icopy_erase`).

**With identity.**  The same source text translated over a heap of objects (Py/PrimC08b.lean).  `src_Tag_copy_heap`: on a heap
that holds a tag (its Tag, TagAttrDict and TagList objects, `TagAtC08b`), `Tag.__copy__` appends exactly three objects — the
new Tag, a new TagAttrDict with the same entries, a new TagList holding the same items — leaves every existing object as it
is, and returns the reference to the first; the ids are those of the model's `ITree.icopyShallow` at the counter `heap.length`
(`src_Tag_copy_ident`), so they are new, pairwise distinct, and not ids of the original (`src_Tag_copy_fresh`).

Every theorem about a regenerated function takes `<fn>_available = true` and is vacuous (and still compiles) when the function
has left the translatable fragment.
-/
import HtmlVerif.Generated.Src
import HtmlVerif.Lemmas.SrcC08b
import HtmlVerif.Lemmas.Ident
import HtmlVerif.Model.ReadOps

set_option linter.unusedSimpArgs false
set_option linter.unusedVariables false

namespace HtmlVerif.SrcTie
open HtmlVerif HtmlVerif.Py HtmlVerif.Generated.Src HtmlVerif.Ident

/-! ## `HTML` -/

/-- `HTML.__init__(self, html)` on a new instance (`HTML.__new__(HTML)`) as the source has it is `UserString(str(html))`: the
    primitive `mkHTML` the other translations use for `HTML(x)` — every `x`, errors of `str(x)` included -/
theorem src_HTML_init (h : HTML_initC08b_available = true) (G : Globals) (x : PVal) :
    HTML_initC08b G (.obj "HTML" []) x = mkHTML x := by
  first
  | exact absurd h (by decide)
  | (unfold HTML_initC08b mkHTML
     cases hx : pyStr x with
     | error e => rfl
     | ok v =>
       obtain ⟨s, rfl⟩ := pyStr_ok_str x v hx
       rfl)

/-- calling `__init__` again on an existing `HTML` replaces its text -/
theorem src_HTML_init_again (h : HTML_initC08b_available = true) (G : Globals) (t : Str) (x : PVal) :
    HTML_initC08b G (.html t) x = mkHTML x := by
  first
  | exact absurd h (by decide)
  | (unfold HTML_initC08b mkHTML
     cases hx : pyStr x with
     | error e => rfl
     | ok v =>
       obtain ⟨s, rfl⟩ := pyStr_ok_str x v hx
       rfl)

/-- the text of an operand of the model (Model/Html.lean) -/
def hvalTextC08b : HVal → Str
  | .plain s => s
  | .html s => s
  | .ob s => s

/-- `HTML(v)` for the model's values (a `str`, an `HTML`, an object whose `str()` is `s`): the HTML value with that text,
    verbatim — no escaping happens at construction (C04) -/
theorem src_HTML_init_model (h : HTML_initC08b_available = true) (G : Globals) (v : HVal) :
    HTML_initC08b G (.obj "HTML" []) (embH v) = .ok (embH (.html (hvalTextC08b v))) := by
  first
  | exact absurd h (by decide)
  | (rw [src_HTML_init h]
     cases v <;> rfl)

/-- `HTML.__str__` as the source has it: the text, as a plain `str` (what `pyStr` states for an `HTML`) -/
theorem src_HTML_str (h : HTML_strC08b_available = true) (h2 : HTML_as_string_available = true) (G : Globals) (s : Str) :
    HTML_strC08b G (.html s) = .ok (.str s) := by
  first
  | exact absurd h (by decide)
  | exact absurd h2 (by decide)
  | (unfold HTML_strC08b
     simp [HTML_as_string])

/-- `HTML.__repr__` as the source has it: the text -/
theorem src_HTML_repr (h : HTML_reprC08b_available = true) (h2 : HTML_as_string_available = true) (G : Globals) (s : Str) :
    HTML_reprC08b G (.html s) = .ok (.str s) := by
  first
  | exact absurd h (by decide)
  | exact absurd h2 (by decide)
  | (unfold HTML_reprC08b
     simp [HTML_as_string])

/-- `HTML._repr_html_` as the source has it: the text (what `pyReprHtml` states for an `HTML`) -/
theorem src_HTML_repr_html (h : HTML_repr_htmlC08b_available = true) (h2 : HTML_as_string_available = true) (G : Globals)
    (s : Str) : HTML_repr_htmlC08b G (.html s) = .ok (.str s) := by
  first
  | exact absurd h (by decide)
  | exact absurd h2 (by decide)
  | (unfold HTML_repr_htmlC08b
     simp [HTML_as_string])

/-- the three views of an `HTML` as the source has them are the stated semantics of `str(x)` and `x._repr_html_()` on an
    `HTML` (Py/Prim.lean), i.e. the primitives the renderer's translation calls are what the methods do -/
theorem src_HTML_views (h1 : HTML_strC08b_available = true) (h2 : HTML_reprC08b_available = true)
    (h3 : HTML_repr_htmlC08b_available = true) (h4 : HTML_as_string_available = true) (G : Globals) (s : Str) :
    HTML_strC08b G (.html s) = pyStr (.html s) ∧ HTML_reprC08b G (.html s) = pyStr (.html s)
    ∧ HTML_repr_htmlC08b G (.html s) = pyReprHtml (.html s) :=
  ⟨src_HTML_str h1 h4 G s, src_HTML_repr h2 h4 G s, src_HTML_repr_html h3 h4 G s⟩

/-- a receiver that is not an `HTML` (no `data`): AttributeError, for each of the three -/
theorem src_HTML_views_other (h1 : HTML_strC08b_available = true) (h2 : HTML_reprC08b_available = true)
    (h3 : HTML_repr_htmlC08b_available = true) (h4 : HTML_as_string_available = true) (G : Globals) (s : Str) :
    HTML_strC08b G (.str s) = .error .attributeError ∧ HTML_reprC08b G (.str s) = .error .attributeError
    ∧ HTML_repr_htmlC08b G (.str s) = .error .attributeError := by
  first
  | exact absurd h1 (by decide)
  | exact absurd h2 (by decide)
  | exact absurd h3 (by decide)
  | exact absurd h4 (by decide)
  | (unfold HTML_strC08b HTML_reprC08b HTML_repr_htmlC08b
     simp [HTML_as_string, pyGetAttr])

/-! ## `HTMLDependency.__repr__` -/

/-- `repr(dep)` as the source has it, for any instance whose `name` is a string and whose `version` is a `Version`:
    `<HTMLDependency "name-version">` -/
theorem src_HTMLDependency_repr_obj (h : HTMLDependency_reprC08b_available = true) (G : Globals) (c : String)
    (fs : List (String × PVal)) (nm : Str) (d : DepInfo) (hn : fieldGet? "name" fs = some (.str nm))
    (hv : fieldGet? "version" fs = some (embEVersion d)) :
    HTMLDependency_reprC08b G (.obj c fs) = .ok (.str (depReprTextC08b nm d.version)) := by
  first
  | exact absurd h (by decide)
  | (unfold HTMLDependency_reprC08b
     simp only [pyGetAttr_obj c fs _ _ hn, pyGetAttr_obj c fs _ _ hv, ok_bind, pure_eq_ok, pyStr_str, pyStr_embEVersion]
     exact (pyConcat_strs [_, nm, _, d.version, _]).trans (by simp [depReprTextC08b]))

/-- `repr(dep)` for the dependencies of the model -/
theorem src_HTMLDependency_repr (h : HTMLDependency_reprC08b_available = true) (G : Globals) (d : DepInfo) (hh : Bool)
    (head : Nodes) :
    HTMLDependency_reprC08b G (embC08b (.dep d hh head)) = .ok (.str (depReprTextC08b d.name d.version))
    ∧ HTMLDependency_reprC08b G (embE (.dep d hh head)) = .ok (.str (depReprTextC08b d.name d.version)) := by
  constructor
  · exact src_HTMLDependency_repr_obj h G _ _ d.name d (by simp [fieldGet?]) (by simp [fieldGet?])
  · exact src_HTMLDependency_repr_obj h G _ _ d.name d (by simp [fieldGet?]) (by simp [fieldGet?])

/-! ## `HTMLDependency.__str__` -/

/-- `str(dep)` as the source has it is `str()` of what `self.as_html_tags()` returns with its default arguments
    (`lib_prefix="lib"`, `include_version=True`) — `str()` decided by the class of that value over the translated
    `Tag.__str__` / `TagList.__str__`; an error of `as_html_tags` is the error of `str(dep)`.  (The two callees are tied to the
    model by `src_as_html_tags`, Props/SrcC12.lean, and `src_TagList_str`, Props/SrcC18.lean; their embeddings of a dependency
    differ — recorded file-system answers in the one, the serialised form in the other — and are not composed here.) -/
theorem src_HTMLDependency_str_def (h : HTMLDependency_strC08b_available = true)
    (h1 : HTMLDependency_as_html_tags_available = true) (h2 : Tag_str_available = true) (h3 : TagList_str_available = true)
    (G : Globals) (fuel : Nat) (x : PVal) :
    HTMLDependency_strC08b G (fuel + 1) x
      = (HTMLDependency_as_html_tags G fuel x (.str ['l', 'i', 'b']) (.bool true)
          >>= pyStrDispC08b (Tag_str G fuel) (TagList_str G fuel)) := by
  first
  | exact absurd h (by decide)
  | exact absurd h1 (by decide)
  | exact absurd h2 (by decide)
  | exact absurd h3 (by decide)
  | (rw [HTMLDependency_strC08b]
     all_goals (
       generalize HTMLDependency_as_html_tags G fuel x (.str ['l', 'i', 'b']) (.bool true) = r
       cases r with
       | error e => rfl
       | ok t =>
         simp only [ok_bind, pure_eq_ok]
         cases pyStrDispC08b (Tag_str G fuel) (TagList_str G fuel) t <;> rfl))

/-- when `as_html_tags()` returns a TagList (it always does: `TagList(*metas, *links, *scripts, self.head)`), `str(dep)` is
    `TagList.__str__` of it -/
theorem src_HTMLDependency_str_list (h : HTMLDependency_strC08b_available = true)
    (h1 : HTMLDependency_as_html_tags_available = true) (h2 : Tag_str_available = true) (h3 : TagList_str_available = true)
    (G : Globals) (fuel : Nat) (x : PVal) (fs : List (String × PVal))
    (ht : HTMLDependency_as_html_tags G fuel x (.str ['l', 'i', 'b']) (.bool true) = .ok (.obj "TagList" fs)) :
    HTMLDependency_strC08b G (fuel + 1) x = TagList_str G fuel (.obj "TagList" fs) := by
  rw [src_HTMLDependency_str_def h h1 h2 h3, ht]
  rfl

/-! ## `Tag.__copy__`, `HTMLDocument.__copy__` by value -/

/-- `Tag.__copy__` as the source has it, on ANY instance `self` of a class with the default `__new__` whose `__dict__` has
    distinct attribute names and holds values that `copy()` returns by value as they are (`copyPlainC08b`: everything except
    an object with a `__copy__` of its own): a new instance of the same class with the same attributes in the same order
    and the same values.  The loop of the dict comprehension is never spelled out (`dictcomp_loop`: one pass examined). -/
theorem src_Tag_copy_obj (h : Tag_copyC08b_available = true) (G : Globals) (c : String) (fs : List (String × PVal))
    (hc : plainNewC08b c = true) (hp : (fs.any fun f => pseudoField f.1) = false)
    (hv : ∀ kv ∈ fs, copyPlainC08b kv.2 = true) (hk : (fs.map (·.1)).Nodup) :
    Tag_copyC08b G (.obj c fs) = .ok (.obj c fs) := by
  first
  | exact absurd h (by decide)
  | skip
  all_goals (
    have hct := plainNew_ne_type c hc
    unfold Tag_copyC08b
    simp only [pyClassAttrC08b, hct, hp, Bool.or_self, Bool.false_eq_true, if_false, pure_eq_ok, ok_bind, pyNewC08b_mk c hc,
      pyObjDict_obj c fs hp, pyItems_dict, pyIter_list, List.map_map]
    rw [show ((fun kv : Str × PVal => PVal.tuple [PVal.str kv.1, kv.2]) ∘ fun kv : String × PVal => (kv.1.toList, kv.2))
        = fun kv : String × PVal => PVal.tuple [PVal.str kv.1.toList, kv.2] from rfl]
    rw [dictcomp_loop id fs [] _ (by
      intro kv hkv a
      simp only [pyUnpack2_tuple, ok_bind, pyCopyFieldC08b_plain kv.2 (hv kv hkv), pySetItem, pure_eq_ok, id])]
    simp only [ok_bind, id, dictcomp_fold fs [] hk (by simp), List.nil_append,
      pyObjDictUpdateC08b_obj c [] _ hct (by simp), fieldfold_rebuild fs [] hk (by simp)])

/-- `HTMLDocument.__copy__` as the source has it (the same text as `Tag.__copy__`), on any instance -/
theorem src_HTMLDocument_copy_obj (h : HTMLDocument_copyC08b_available = true) (G : Globals) (c : String) (fs : List (String × PVal))
    (hc : plainNewC08b c = true) (hp : (fs.any fun f => pseudoField f.1) = false)
    (hv : ∀ kv ∈ fs, copyPlainC08b kv.2 = true) (hk : (fs.map (·.1)).Nodup) :
    HTMLDocument_copyC08b G (.obj c fs) = .ok (.obj c fs) := by
  first
  | exact absurd h (by decide)
  | skip
  all_goals (
    have hct := plainNew_ne_type c hc
    unfold HTMLDocument_copyC08b
    simp only [pyClassAttrC08b, hct, hp, Bool.or_self, Bool.false_eq_true, if_false, pure_eq_ok, ok_bind, pyNewC08b_mk c hc,
      pyObjDict_obj c fs hp, pyItems_dict, pyIter_list, List.map_map]
    rw [show ((fun kv : Str × PVal => PVal.tuple [PVal.str kv.1, kv.2]) ∘ fun kv : String × PVal => (kv.1.toList, kv.2))
        = fun kv : String × PVal => PVal.tuple [PVal.str kv.1.toList, kv.2] from rfl]
    rw [dictcomp_loop id fs [] _ (by
      intro kv hkv a
      simp only [pyUnpack2_tuple, ok_bind, pyCopyFieldC08b_plain kv.2 (hv kv hkv), pySetItem, pure_eq_ok, id])]
    simp only [ok_bind, id, dictcomp_fold fs [] hk (by simp), List.nil_append,
      pyObjDictUpdateC08b_obj c [] _ hct (by simp), fieldfold_rebuild fs [] hk (by simp)])

theorem copyPlain_attrs (a : Attrs) : copyPlainC08b (embAttrs a) = true := rfl
theorem copyPlain_taglist (l : List PVal) : copyPlainC08b (eqTagList l) = true := rfl

/-- `copy.copy(tag)` by value -/
theorem src_Tag_copy (h : Tag_copyC08b_available = true) (G : Globals) (nm : Str) (ws : Bool) (a : Attrs) (kids : Nodes) :
    Tag_copyC08b G (embC08b (.tag nm ws a kids)) = .ok (embC08b (.tag nm ws a kids)) := by
  rw [embC08b]
  refine src_Tag_copy_obj h G _ _ rfl (by simp [pseudoField]) ?_ (by simp)
  intro kv hkv
  simp only [List.mem_cons, List.not_mem_nil, or_false] at hkv
  rcases hkv with rfl | rfl | rfl | rfl | rfl <;> rfl

theorem icopyShallow_erase (x : ITree) (n : Nat) : (x.icopyShallow n).1.erase = x.erase := by
  cases x <;> rfl

theorem src_Tag_copy_refines (h : Tag_copyC08b_available = true) (G : Globals) (i a k : Nat) (nm : Str) (ws : Bool)
    (at' : Attrs) (kids : ITrees) (n : Nat) :
    Tag_copyC08b G (embC08b (ITree.tag i a k nm ws at' kids).erase)
      = .ok (embC08b ((ITree.tag i a k nm ws at' kids).icopyShallow n).1.erase) := by
  rw [icopyShallow_erase, ITree.erase]
  exact src_Tag_copy h G nm ws at' kids.eraseAll

/-- an `HTMLDocument` as the object `__copy__` sees: `_content` (a TagList) and `_html_attr_args` (the keyword arguments) -/
def embDocC08b (content : Nodes) (args : List (Str × AttrArg)) : PVal :=
  .obj "HTMLDocument" [("_content", eqTagList (embsC08b content)), ("_html_attr_args", embArgDict args)]

/-- `copy.copy(doc)` by value: the same document -/
theorem src_HTMLDocument_copy (h : HTMLDocument_copyC08b_available = true) (G : Globals) (content : Nodes)
    (args : List (Str × AttrArg)) :
    HTMLDocument_copyC08b G (embDocC08b content args) = .ok (embDocC08b content args) := by
  rw [embDocC08b]
  refine src_HTMLDocument_copy_obj h G _ _ rfl (by simp [pseudoField]) ?_ (by simp)
  intro kv hkv
  simp only [List.mem_cons, List.not_mem_nil, or_false] at hkv
  rcases hkv with rfl | rfl <;> rfl

/-! ## `_copy_tag_nodes`, `HTMLDependency.__copy__` by value -/

/-- `HTMLDependency.__copy__` by value on any instance with distinct attribute names whose `source` / `script` / `stylesheet` /
    `meta` are plain data and whose `head` is None or a value `_copy_tag_nodes` (one level of fuel down) returns as it is -/
theorem src_HTMLDependency_copy_obj (a2 : HTMLDependency_copyC08b_available = true) (G : Globals) (n : Nat) (c : String)
    (fs : List (String × PVal)) (src scr sty met hd : PVal)
    (hc : plainNewC08b c = true) (hp : (fs.any fun f => pseudoField f.1) = false) (hk : (fs.map (·.1)).Nodup)
    (h1 : fieldGet? "source" fs = some src) (h2 : fieldGet? "script" fs = some scr)
    (h3 : fieldGet? "stylesheet" fs = some sty) (h4 : fieldGet? "meta" fs = some met) (h5 : fieldGet? "head" fs = some hd)
    (p1 : plainDataC08b src = true) (p2 : plainDataC08b scr = true) (p3 : plainDataC08b sty = true)
    (p4 : plainDataC08b met = true) (p5 : isNone hd = false → copy_tag_nodesC08b G n hd = .ok hd) :
    HTMLDependency_copyC08b G (n + 1) (.obj c fs) = .ok (.obj c fs) := by
  first
  | exact absurd a2 (by decide)
  | skip
  all_goals (
    have hct := plainNew_ne_type c hc
    rw [HTMLDependency_copyC08b]
    simp only [pyClassAttrC08b, hct, hp, Bool.or_self, Bool.false_eq_true, if_false, pure_eq_ok, ok_bind, pyNewC08b_mk c hc,
      pyObjDict_obj c fs hp, pyObjDictUpdateC08b_obj c [] _ hct (by simp), fieldfold_rebuild fs [] hk (by simp),
      List.nil_append, pyGetAttr_obj c fs _ _ h1, pyGetAttr_obj c fs _ _ h2, pyGetAttr_obj c fs _ _ h3,
      pyGetAttr_obj c fs _ _ h4, pyGetAttr_obj c fs _ _ h5, pyDeepcopyC08b_plain _ p1, pyDeepcopyC08b_plain _ p2,
      pyDeepcopyC08b_plain _ p3, pyDeepcopyC08b_plain _ p4, pySetAttr_same c fs _ _ h1, pySetAttr_same c fs _ _ h2,
      pySetAttr_same c fs _ _ h3, pySetAttr_same c fs _ _ h4, truthy_bool]
    cases hn : isNone hd with
    | true => simp only [Bool.not_true, Bool.false_eq_true, if_false]
    | false => simp only [Bool.not_false, if_true, p5 hn, ok_bind, pySetAttr_same c fs _ _ h5])


/-- the two functions together, by induction on the fuel: a child list needs one level per Tag nesting and two per
    dependency nesting.  The `enumerate` loop is obtained by unification (`forIn_enum_keep_k`: the invariant is "what the code
    after the loop reads is the original list"); one pass is examined per kind of child. -/
theorem src_copy_group (a1 : copy_tag_nodesC08b_available = true) (a2 : HTMLDependency_copyC08b_available = true)
    (a3 : Tag_copyC08b_available = true) (G : Globals) (n : Nat) :
    (∀ ks, cpFuelKidsC08b ks + 1 ≤ n → copy_tag_nodesC08b G n (eqTagList (embsC08b ks)) = .ok (eqTagList (embsC08b ks)))
    ∧ (∀ d hh k, cpFuelKidsC08b k + 2 ≤ n →
        HTMLDependency_copyC08b G n (embC08b (.dep d hh k)) = .ok (embC08b (.dep d hh k))) := by
  first
  | exact absurd a1 (by decide)
  | exact absurd a2 (by decide)
  | skip
  all_goals (
    induction n with
    | zero => exact ⟨fun ks h => by omega, fun d hh k h => by omega⟩
    | succ n ih =>
      refine ⟨?_, ?_⟩
      · intro ks hf
        rw [copy_tag_nodesC08b]
        simp only [pyCopyDispC08b_taglist, ok_bind, pure_eq_ok, pyEnumerate_taglist, pyIter_list]
        refine forIn_enum_keep_k _ _ _ _ _ rfl ?_
        intro i x hix s hs
        have hs' : s.1 = eqTagList (embsC08b ks) := by injection hs
        have hx : x ∈ ks.toList.map embC08b := by rw [← embsC08b_toList]; exact List.mem_of_getElem? hix
        obtain ⟨c, hc, rfl⟩ := List.mem_map.mp hx
        have hfc := cpFuel_le_kids ks c hc
        rcases embC08b_cases c with ⟨nm, ws, a, k, rfl⟩ | ⟨d, hh, k, rfl⟩ | ⟨m, rfl⟩ | hk
        · have hk : cpFuelKidsC08b k + 1 ≤ n := by simp only [cpFuelC08b] at hfc; omega
          exact keep_step _ (by simp only [pyUnpack2_tuple, ok_bind, embTag_isTag, truthy_bool, if_true, embTag_disp, src_Tag_copy a3,
              embTag_children, ih.1 k hk, embTag_setChildren, hs', pySetItemU_same _ _ _ hix]; rfl) (by rfl)
        · have hk : cpFuelKidsC08b k + 2 ≤ n := by simp only [cpFuelC08b] at hfc; omega
          exact keep_step _ (by simp only [pyUnpack2_tuple, ok_bind, embDep_isTag, embDep_isMeta, truthy_bool, if_true, Bool.false_eq_true,
              if_false, embDep_disp, ih.2 d hh k hk, hs', pySetItemU_same _ _ _ hix]; rfl) (by rfl)
        · exact keep_step _ (by simp only [pyUnpack2_tuple, ok_bind, embMeta_isTag, embMeta_isMeta, truthy_bool, if_true, Bool.false_eq_true,
              if_false, embMeta_disp, hs', pySetItemU_same _ _ _ hix]; rfl) (by rfl)
        · simp only [keptC08b, Bool.and_eq_true, Bool.not_eq_true'] at hk
          exact keep_step _ (by simp only [pyUnpack2_tuple, ok_bind, hk.1, hk.2, truthy_bool, Bool.false_eq_true, if_false]; rfl) (by exact hs)
      · intro d hh k hf
        have hk : cpFuelKidsC08b k + 1 ≤ n := by omega
        rw [embC08b]
        refine src_HTMLDependency_copy_obj a2 G n _ _ (embESource d.source) (embEKvs d.script) (embEKvs d.stylesheet) (embEKvs d.metas)
          (if hh then eqTagList (embsC08b k) else .none) rfl (by simp [pseudoField]) (by simp) (by simp [fieldGet?])
          (by simp [fieldGet?]) (by simp [fieldGet?]) (by simp [fieldGet?]) (by simp [fieldGet?]) (plainData_source _)
          (plainData_ekvs _) (plainData_ekvs _) (plainData_ekvs _) ?_
        cases hh with
        | false => intro h; cases h
        | true => intro _; exact ih.1 k hk)

/-- `_copy_tag_nodes(x)` as the source has it, by value, on the child list of any tree: an equal list (new TagList, new Tags
    with new attrs and children, new metadata nodes and dependencies — by value, the same) -/
theorem src_copy_tag_nodes (a1 : copy_tag_nodesC08b_available = true) (a2 : HTMLDependency_copyC08b_available = true)
    (a3 : Tag_copyC08b_available = true) (G : Globals) (ks : Nodes) (fuel : Nat) (hf : cpFuelKidsC08b ks + 1 ≤ fuel) :
    copy_tag_nodesC08b G fuel (eqTagList (embsC08b ks)) = .ok (eqTagList (embsC08b ks)) :=
  (src_copy_group a1 a2 a3 G fuel).1 ks hf

/-- `copy.copy(dep)` (`HTMLDependency.__copy__`) as the source has it, by value: an equal dependency -/
theorem src_HTMLDependency_copy (a1 : copy_tag_nodesC08b_available = true) (a2 : HTMLDependency_copyC08b_available = true)
    (a3 : Tag_copyC08b_available = true) (G : Globals) (d : DepInfo) (hh : Bool) (k : Nodes) (fuel : Nat)
    (hf : cpFuelKidsC08b k + 2 ≤ fuel) :
    HTMLDependency_copyC08b G fuel (embC08b (.dep d hh k)) = .ok (embC08b (.dep d hh k)) :=
  (src_copy_group a1 a2 a3 G fuel).2 d hh k hf

/-- the structural half of C08 (`icopyAll_erase`, `C08_tagify_refines`) for the source text: what `_copy_tag_nodes` returns on
    the value of a child list is the value of the model's `icopyAll` of it, at any counter -/
theorem src_copy_tag_nodes_refines (a1 : copy_tag_nodesC08b_available = true) (a2 : HTMLDependency_copyC08b_available = true)
    (a3 : Tag_copyC08b_available = true) (G : Globals) (ks : ITrees) (n fuel : Nat)
    (hf : cpFuelKidsC08b ks.eraseAll + 1 ≤ fuel) :
    copy_tag_nodesC08b G fuel (eqTagList (embsC08b ks.eraseAll)) = .ok (eqTagList (embsC08b (ks.icopyAll n).1.eraseAll)) := by
  rw [ITrees.icopyAll_erase]
  exact src_copy_tag_nodes a1 a2 a3 G _ fuel hf

/-- … and `copy(dep)` is the value of the model's `icopy` of the dependency -/
theorem src_HTMLDependency_copy_refines (a1 : copy_tag_nodesC08b_available = true)
    (a2 : HTMLDependency_copyC08b_available = true) (a3 : Tag_copyC08b_available = true) (G : Globals) (i : Nat) (d : IDep)
    (hh : Bool) (hid : Nat) (hd : ITrees) (n fuel : Nat) (hf : cpFuelKidsC08b hd.eraseAll + 2 ≤ fuel) :
    HTMLDependency_copyC08b G fuel (embC08b (ITree.dep i d hh hid hd).erase)
      = .ok (embC08b ((ITree.dep i d hh hid hd).icopy n).1.erase) := by
  rw [ITree.icopy_erase, ITree.erase]
  exact src_HTMLDependency_copy a1 a2 a3 G _ hh _ fuel hf

/-! ## with identity: `Tag.__copy__`, `HTMLDocument.__copy__` over the heap -/

/-- `Tag.__copy__` over the heap, on a reference to ANY instance: the new instance is allocated first, the attribute values
    are copied in `__dict__` order, the copies become the attributes of the new instance -/
theorem src_Tag_copy_heap_obj (h : Tag_copyHC08b_available = true) (G : Globals) (H : List PVal) (c : String) (i : Nat)
    (fs : List (String × PVal)) (hi : H[i]? = some (.obj c fs)) (hc : plainNewC08b c = true)
    (hp : (fs.any fun f => pseudoField f.1) = false) :
    Tag_copyHC08b G (mkRefC08b c i) H
      = (do let kvs ← copyFieldsHC08b fs []
            hObjDictUpdateC08b (mkRefC08b c H.length) (.dict kvs)
            pure (mkRefC08b c H.length)) (H ++ [PVal.obj c []]) := by
  first
  | exact absurd h (by decide)
  | skip
  all_goals (
    have hct := plainNew_ne_type c hc
    unfold Tag_copyHC08b
    have h1 : pyClassAttrC08b (mkRefC08b c i) = .ok (mkClassC08b c) := by
      simp [pyClassAttrC08b, mkRefC08b, hct, pseudoField]
    have h2 : hNewC08b (mkClassC08b c) (mkClassC08b c) H = .ok (mkRefC08b c H.length, H ++ [.obj c []]) := by
      unfold hNewC08b
      simp only [pyNewC08b_mk c hc]
      rfl
    simp only [h1, HMC08b.lift_ok, pure_bind]
    rw [HMC08b.run_bind_ok h2]
    have hi' : (H ++ [PVal.obj c []])[i]? = some (.obj c fs) := by
      have : i < H.length := by
        rcases Nat.lt_or_ge i H.length with h' | h'
        · exact h'
        · rw [List.getElem?_eq_none h'] at hi; cases hi
      rw [List.getElem?_append_left this]; exact hi
    rw [HMC08b.run_bind_ok (hObjDict_ok _ c c i fs hi' hp)]
    simp only [pyItems_dict, pyIter_list, HMC08b.lift_ok, pure_bind, List.map_map]
    rw [show ((fun kv : Str × PVal => PVal.tuple [PVal.str kv.1, kv.2]) ∘ fun kv : String × PVal => (kv.1.toList, kv.2))
        = fun kv : String × PVal => PVal.tuple [PVal.str kv.1.toList, kv.2] from rfl]
    rw [dictcomp_loopH fs [] _ (by
      intro kv hkv a
      simp only [pyUnpack2_tuple, HMC08b.lift_ok, pure_bind, pySetItem, pure_eq_ok])]
    simp only [bind_assoc, pure_bind])

/-- `HTMLDocument.__copy__` over the heap (the same text), on a reference to ANY instance: the new instance is allocated first, the attribute values
    are copied in `__dict__` order, the copies become the attributes of the new instance -/
theorem src_HTMLDocument_copy_heap_obj (h : HTMLDocument_copyHC08b_available = true) (G : Globals) (H : List PVal) (c : String) (i : Nat)
    (fs : List (String × PVal)) (hi : H[i]? = some (.obj c fs)) (hc : plainNewC08b c = true)
    (hp : (fs.any fun f => pseudoField f.1) = false) :
    HTMLDocument_copyHC08b G (mkRefC08b c i) H
      = (do let kvs ← copyFieldsHC08b fs []
            hObjDictUpdateC08b (mkRefC08b c H.length) (.dict kvs)
            pure (mkRefC08b c H.length)) (H ++ [PVal.obj c []]) := by
  first
  | exact absurd h (by decide)
  | skip
  all_goals (
    have hct := plainNew_ne_type c hc
    unfold HTMLDocument_copyHC08b
    have h1 : pyClassAttrC08b (mkRefC08b c i) = .ok (mkClassC08b c) := by
      simp [pyClassAttrC08b, mkRefC08b, hct, pseudoField]
    have h2 : hNewC08b (mkClassC08b c) (mkClassC08b c) H = .ok (mkRefC08b c H.length, H ++ [.obj c []]) := by
      unfold hNewC08b
      simp only [pyNewC08b_mk c hc]
      rfl
    simp only [h1, HMC08b.lift_ok, pure_bind]
    rw [HMC08b.run_bind_ok h2]
    have hi' : (H ++ [PVal.obj c []])[i]? = some (.obj c fs) := by
      have : i < H.length := by
        rcases Nat.lt_or_ge i H.length with h' | h'
        · exact h'
        · rw [List.getElem?_eq_none h'] at hi; cases hi
      rw [List.getElem?_append_left this]; exact hi
    rw [HMC08b.run_bind_ok (hObjDict_ok _ c c i fs hi' hp)]
    simp only [pyItems_dict, pyIter_list, HMC08b.lift_ok, pure_bind, List.map_map]
    rw [show ((fun kv : Str × PVal => PVal.tuple [PVal.str kv.1, kv.2]) ∘ fun kv : String × PVal => (kv.1.toList, kv.2))
        = fun kv : String × PVal => PVal.tuple [PVal.str kv.1.toList, kv.2] from rfl]
    rw [dictcomp_loopH fs [] _ (by
      intro kv hkv a
      simp only [pyUnpack2_tuple, HMC08b.lift_ok, pure_bind, pySetItem, pure_eq_ok])]
    simp only [bind_assoc, pure_bind])

/-- **`Tag.__copy__` on a heap that holds the tag** (`TagAtC08b`: the Tag object `i`, its TagAttrDict `a`, its TagList `k`):
    exactly three objects are appended — the new Tag (whose `attrs` / `children` are the next two), a new TagAttrDict with the
    same entries, a new TagList with the same items — nothing else changes, and the reference to the first is returned -/
theorem src_Tag_copy_heap (h : Tag_copyHC08b_available = true) (G : Globals) (H : List PVal) (i a k : Nat) (nm : Str)
    (ws : Bool) (attrs : List (Str × PVal)) (kids : List PVal) (ht : TagAtC08b H i a k nm ws attrs kids) :
    Tag_copyHC08b G (mkRefC08b "Tag" i) H
      = .ok (mkRefC08b "Tag" H.length,
             H ++ [tagObjC08b nm ws (H.length + 1) (H.length + 2), .dict attrs, .obj "TagList" [("data", .list kids)]]) := by
  rw [src_Tag_copy_heap_obj h G H "Tag" i _ ht.tag rfl (by simp [pseudoField])]
  have ha : (H ++ [PVal.obj "Tag" []])[a]? = some (.dict attrs) := by
    rw [List.getElem?_append_left (getElem?_lt ht.attrs)]; exact ht.attrs
  have hk : (H ++ [PVal.obj "Tag" []] ++ [PVal.dict attrs])[k]? = some (.obj "TagList" [("data", .list kids)]) := by
    rw [List.append_assoc, List.getElem?_append_left (getElem?_lt ht.kids)]; exact ht.kids
  simp only [copyFieldsHC08b, hCopyField_str, hCopyField_bool, hCopyField_none, pure_bind, bind_assoc]
  rw [HMC08b.run_bind_ok (hCopyObj_attrs _ a attrs ha), HMC08b.run_bind_ok (hCopyObj_taglist _ k kids hk)]
  have hn : (H ++ [PVal.obj "Tag" []] ++ [PVal.dict attrs] ++ [PVal.obj "TagList" [("data", PVal.list kids)]])[H.length]?
      = some (PVal.obj "Tag" []) := by simp
  rw [HMC08b.run_bind_ok (hObjDictUpdate_ok _ "Tag" H.length _ _ _ hn
    (pyObjDictUpdateC08b_obj "Tag" [] _ (by decide) (by simp)))]
  rw [show (Py.dictSet "prev_displayhook".toList PVal.none
              (Py.dictSet "children".toList (mkRefC08b "TagList" (H ++ [PVal.obj "Tag" []] ++ [PVal.dict attrs]).length)
                (Py.dictSet "attrs".toList (mkRefC08b "TagAttrDict" (H ++ [PVal.obj "Tag" []]).length)
                  (Py.dictSet "add_ws".toList (PVal.bool ws) (Py.dictSet "name".toList (PVal.str nm) [])))))
        = List.foldl (fun a (kv : String × PVal) => Py.dictSet kv.1.toList kv.2 a) []
            [("name", PVal.str nm), ("add_ws", PVal.bool ws),
             ("attrs", mkRefC08b "TagAttrDict" (H ++ [PVal.obj "Tag" []]).length),
             ("children", mkRefC08b "TagList" (H ++ [PVal.obj "Tag" []] ++ [PVal.dict attrs]).length),
             ("prev_displayhook", PVal.none)] from by simp only [List.foldl_cons, List.foldl_nil],
    dictcomp_fold _ [] (by simp) (by simp), List.nil_append, fieldfold_rebuild _ [] (by simp) (by simp)]
  simp [HMC08b.run_pure, tagObjC08b, List.set_append]

/-- the entries of a stored attribute dict as heap values -/
def attrKvsC08b (a : Attrs) : List (Str × PVal) := a.map fun kv => (kv.1, embVal kv.2)

/-- nothing that was in the heap is touched by an extension -/
theorem getElem?_append_some {H L : List PVal} {j : Nat} {o : PVal} (h : H[j]? = some o) : (H ++ L)[j]? = some o := by
  rw [List.getElem?_append_left (getElem?_lt h)]; exact h

/-- **`Tag.__copy__` ↔ `ITree.icopyShallow`.**  Let the model tag `x = .tag i a k nm ws at kids` be held by the heap `H` (its
    three objects at the ids the model gives them; `vs` are the values of its children, whatever they are).  With the
    model's fresh-id counter at `H.length`, the source's `Tag.__copy__` returns the reference to the Tag the model's
    `icopyShallow` creates, the heap afterwards holds that copy — same name, same `add_ws`, same attribute entries, the *same*
    child values — at exactly the model's ids, the counter afterwards is the new heap's length, and every object that was in
    the heap is still there unchanged (in particular the original tag). -/
theorem src_Tag_copy_ident (h : Tag_copyHC08b_available = true) (G : Globals) (H : List PVal) (i a k : Nat) (nm : Str)
    (ws : Bool) (at' : Attrs) (kids : ITrees) (vs : List PVal)
    (ht : TagAtC08b H i a k nm ws (attrKvsC08b at') vs) :
    ∃ H', Tag_copyHC08b G (mkRefC08b "Tag" i) H = .ok (mkRefC08b "Tag" H.length, H')
      ∧ ((ITree.tag i a k nm ws at' kids).icopyShallow H.length).1
          = .tag H.length (H.length + 1) (H.length + 2) nm ws at' kids
      ∧ TagAtC08b H' H.length (H.length + 1) (H.length + 2) nm ws (attrKvsC08b at') vs
      ∧ ((ITree.tag i a k nm ws at' kids).icopyShallow H.length).2 = H'.length
      ∧ (∀ (j : Nat) (o : PVal), H[j]? = some o → H'[j]? = some o)
      ∧ TagAtC08b H' i a k nm ws (attrKvsC08b at') vs := by
  refine ⟨_, src_Tag_copy_heap h G H i a k nm ws _ vs ht, rfl, ⟨by simp, by simp, by simp⟩, by simp [ITree.icopyShallow],
    fun j o hj => getElem?_append_some hj, ⟨getElem?_append_some ht.tag, getElem?_append_some ht.attrs,
      getElem?_append_some ht.kids⟩⟩

/-- **Freshness of `Tag.__copy__`** (the independence half for the shallow copy): the three objects of the copy are new —
    their ids are the three consecutive ids from the old heap length on, pairwise distinct, and none of them is an id of
    an object that existed before the call; in particular none is an id of the original tag or of anything below it
    (`x.ids`, all of which are ids of objects in the heap).  What the copy *shares* with the original is exactly the child
    values (`kids`, unchanged in the model's `icopyShallow` too): a shallow copy. -/
theorem src_Tag_copy_fresh (h : Tag_copyHC08b_available = true) (G : Globals) (H : List PVal) (i a k : Nat) (nm : Str)
    (ws : Bool) (at' : Attrs) (kids : ITrees) (vs : List PVal)
    (ht : TagAtC08b H i a k nm ws (attrKvsC08b at') vs)
    (hx : ∀ j ∈ (ITree.tag i a k nm ws at' kids).ids, j < H.length) :
    ∃ n H', Tag_copyHC08b G (mkRefC08b "Tag" i) H = .ok (mkRefC08b "Tag" n, H')
      ∧ TagAtC08b H' n (n + 1) (n + 2) nm ws (attrKvsC08b at') vs
      ∧ [n, n + 1, n + 2].Nodup
      ∧ (∀ j ∈ [n, n + 1, n + 2], H.length ≤ j ∧ j < H'.length ∧ j ∉ (ITree.tag i a k nm ws at' kids).ids) := by
  obtain ⟨H', h1, _, h3, h4, _, _⟩ := src_Tag_copy_ident h G H i a k nm ws at' kids vs ht
  refine ⟨H.length, H', h1, h3, by simp, ?_⟩
  have hl : H'.length = H.length + 3 := by rw [← h4]; rfl
  intro j hj
  simp only [List.mem_cons, List.not_mem_nil, or_false] at hj
  refine ⟨by omega, by omega, fun hm => ?_⟩
  have := hx j hm
  omega

/-- the heap holds an HTMLDocument: the document object `d`, its `_content` TagList `c` with the items `kids`, its
    `_html_attr_args` dict `a` with the entries `args` -/
structure DocAtC08b (H : List PVal) (d c a : Nat) (kids : List PVal) (args : List (Str × PVal)) : Prop where
  doc : H[d]? = some (.obj "HTMLDocument" [("_content", mkRefC08b "TagList" c), ("_html_attr_args", mkRefC08b "dict" a)])
  content : H[c]? = some (.obj "TagList" [("data", .list kids)])
  args : H[a]? = some (.dict args)

/-- **`HTMLDocument.__copy__` on a heap that holds the document**: three objects are appended — the new document, a new
    TagList with the same items, a new dict with the same entries — and nothing else changes -/
theorem src_HTMLDocument_copy_heap (h : HTMLDocument_copyHC08b_available = true) (G : Globals) (H : List PVal) (d c a : Nat)
    (kids : List PVal) (args : List (Str × PVal)) (hd : DocAtC08b H d c a kids args) :
    HTMLDocument_copyHC08b G (mkRefC08b "HTMLDocument" d) H
      = .ok (mkRefC08b "HTMLDocument" H.length,
             H ++ [.obj "HTMLDocument" [("_content", mkRefC08b "TagList" (H.length + 1)),
                                        ("_html_attr_args", mkRefC08b "dict" (H.length + 2))],
                   .obj "TagList" [("data", .list kids)], .dict args]) := by
  rw [src_HTMLDocument_copy_heap_obj h G H "HTMLDocument" d _ hd.doc rfl (by simp [pseudoField])]
  have hc : (H ++ [PVal.obj "HTMLDocument" []])[c]? = some (.obj "TagList" [("data", .list kids)]) :=
    getElem?_append_some hd.content
  have ha : (H ++ [PVal.obj "HTMLDocument" []] ++ [PVal.obj "TagList" [("data", .list kids)]])[a]? = some (.dict args) := by
    rw [List.append_assoc]; exact getElem?_append_some hd.args
  simp only [copyFieldsHC08b, pure_bind, bind_assoc]
  rw [HMC08b.run_bind_ok (hCopyObj_taglist _ c kids hc), HMC08b.run_bind_ok (hCopyObj_dict _ a args ha)]
  have hn : (H ++ [PVal.obj "HTMLDocument" []] ++ [PVal.obj "TagList" [("data", PVal.list kids)]] ++ [PVal.dict args])[H.length]?
      = some (PVal.obj "HTMLDocument" []) := by simp
  rw [HMC08b.run_bind_ok (hObjDictUpdate_ok _ "HTMLDocument" H.length _ _ _ hn
    (pyObjDictUpdateC08b_obj "HTMLDocument" [] _ (by decide) (by simp)))]
  rw [show (Py.dictSet "_html_attr_args".toList
              (mkRefC08b "dict" (H ++ [PVal.obj "HTMLDocument" []] ++ [PVal.obj "TagList" [("data", PVal.list kids)]]).length)
              (Py.dictSet "_content".toList (mkRefC08b "TagList" (H ++ [PVal.obj "HTMLDocument" []]).length) []))
        = List.foldl (fun a (kv : String × PVal) => Py.dictSet kv.1.toList kv.2 a) []
            [("_content", mkRefC08b "TagList" (H ++ [PVal.obj "HTMLDocument" []]).length),
             ("_html_attr_args",
               mkRefC08b "dict" (H ++ [PVal.obj "HTMLDocument" []] ++ [PVal.obj "TagList" [("data", PVal.list kids)]]).length)]
        from by simp only [List.foldl_cons, List.foldl_nil],
    dictcomp_fold _ [] (by simp) (by simp), List.nil_append, fieldfold_rebuild _ [] (by simp) (by simp)]
  simp [HMC08b.run_pure, List.set_append]

end HtmlVerif.SrcTie
