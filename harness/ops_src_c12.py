"""Implementation side of the source tie for C12 / C11 (DESIGN §14): the real `HTMLDependency.source_path_map`,
`as_dict`, `as_html_tags` on the realised values, for the op `src` (ops_src.py).

An `O HTMLDependency [ … ]` term that carries more than a `name` field is realised *without* `__init__` (the fields are set as
they are), so that every shape the three methods can meet — valid or not — can be handed to them.  The pseudo-fields
`__realpath__` / `__package_dir__` record, for the *Lean* side, what `os.path.realpath` / `package_dir` answer at run
time (Py/PrimC12.lean); the real functions ask the file system / the import system themselves."""
from __future__ import annotations

import ops_src

DEP_FIELDS = ("name", "version", "source", "script", "stylesheet", "meta", "all_files", "head")


def _dep(fields):
    import htmltools
    if set(fields) <= {"name"}:      # the minimal record the renderer's embedding uses (a child that is skipped)
        return htmltools.HTMLDependency(fields.get("name") or "d", "1.0")
    d = htmltools.HTMLDependency.__new__(htmltools.HTMLDependency)
    for k in DEP_FIELDS:
        if k in fields:
            setattr(d, k, fields[k])
    return d


def _version(fields):
    from packaging.version import Version
    v = Version(fields["__str__"])
    if str(v) != fields["__str__"]:
        raise ValueError("the recorded str() of a Version must be its normalised text")
    return v


ops_src.REALIZE["HTMLDependency"] = _dep
ops_src.REALIZE["Version"] = _version


def _hd():
    import htmltools
    return htmltools.HTMLDependency


ops_src.CALLS["HTMLDependency_source_path_map"] = lambda a: _hd().source_path_map(a[0], lib_prefix=a[1], include_version=a[2])
ops_src.CALLS["HTMLDependency_as_dict"] = lambda a: _hd().as_dict(a[0], lib_prefix=a[1], include_version=a[2])
ops_src.CALLS["HTMLDependency_as_html_tags"] = lambda a: _hd().as_html_tags(a[0], lib_prefix=a[1], include_version=a[2])


def _encode(v, enc):
    """a Tag / TagList as the `__dict__` the translated methods see (fields in the order of `embNode`); the
    self-rendering / tagifiable test objects as `embNode` writes them"""
    import htmltools
    if type(v) is htmltools.Tag:
        return (f"O Tag [ name {enc(v.name)} attrs {enc(dict(v.attrs))} children {enc(v.children)} "
                f"add_ws {enc(v.add_ws)} ]")
    if type(v) is htmltools.TagList:
        return f"O TagList [ data {enc(list(v.data))} ]"
    if type(v) is ops_src._Repr:
        return f"O ReprObj [ _repr_html_ {enc(v._t)} ]"
    if type(v) is ops_src._TagifiableRepr:
        return f"O TagifiableObj [ tagify N _repr_html_ {enc(v._t)} ]"
    if type(v) is ops_src._Tagifiable:
        return "O TagifiableObj [ tagify N ]"
    return None


ops_src.ENCODE.append(_encode)
