/-
A small universe of Python values and the exception monad in which the functions that
`harness/pytranslate.py` regenerates from /repo's source (Generated/Src.lean) are expressed.

This file and `Py/Prim.lean` are the *stated semantics of the Python fragment* the translated
functions use (trusted base, DESIGN §14): every primitive is a total Lean function that either
returns what CPython returns on that argument shape, raises the exception kind CPython raises,
or raises `unsupported` (the fragment does not cover the case — never a claim about Python).
-/
import HtmlVerif.Model.Str

namespace HtmlVerif.Py
open HtmlVerif

/-- exception kinds; the last two are not Python behaviour -/
inductive PyErr
  | typeError | valueError | keyError | indexError | attributeError | runtimeError
  | notImplemented | exception
  | fuel          -- recursion budget of a translated recursive function exhausted
  | unsupported   -- outside the modelled fragment
  deriving DecidableEq, Repr, Inhabited

/-- Python values of the fragment -/
inductive PVal
  | none
  | bool (b : Bool)
  | int (n : Int)
  | float (txt : Str)                  -- a float, carried as its `str()` text
  | str (s : Str)
  | html (s : Str)                     -- an `htmltools.HTML` instance (`data == s`)
  | list (xs : List PVal)
  | tuple (xs : List PVal)
  | dict (kvs : List (Str × PVal))     -- insertion-ordered dict with `str` keys
  | obj (cls : String) (fields : List (String × PVal))   -- any other instance: class name and `__dict__`
  deriving Repr, Inhabited

abbrev PyM := Except PyErr

/-- module-level constants and what the running interpreter contributes -/
structure Globals where
  HTML_ESCAPE_TABLE : PVal
  HTML_ATTRS_ESCAPE_TABLE : PVal
  VOID_TAG_NAMES : List Str
  NO_ESCAPE_TAG_NAMES : List Str
  isSpace : Char → Bool            -- `str.isspace` per character
  lower : Str → Str                -- `str.lower`
  /-- `packaging.version.Version(s)` (not translated): the Version object, or `none` for InvalidVersion (Py/PrimC10b.lean) -/
  mkVersion : Str → Option PVal := fun _ => Option.none
  /-- `htmltools.html_dependency_render_mode` at the time `_render_tag_or_taglist` imports it (harness/pytr_c18.py);
      the package's initial value is "invisible" -/
  renderModeC18 : PVal := PVal.str ['i', 'n', 'v', 'i', 's', 'i', 'b', 'l', 'e']
  /-- `hashlib.sha1(s.encode("utf-8")).hexdigest()` (not translated): the digest text, or `none` = not supplied (Py/PrimC18.lean) -/
  sha1HexC18 : Str → Option Str := fun _ => Option.none
  /-- `d.as_html_tags(lib_prefix=lp, include_version=iv)` (HTMLDependency.as_html_tags is not translated): what the call
      answers for the dependency object `d` is a parameter (Py/PrimC11.lean); by default nothing is known -/
  asHtmlTagsC11 : PVal → PVal → PVal → PyM PVal := fun _ _ _ => Except.error PyErr.unsupported
  /-- `str.upper` of the running interpreter (harness/pytr_c20b.py: the initial of a JSX tag name), or `none` = not supplied
      (Py/PrimC20b.lean) -/
  upperC20b : Str → Option Str := fun _ => Option.none

instance : Inhabited Globals :=
  ⟨{ HTML_ESCAPE_TABLE := .none, HTML_ATTRS_ESCAPE_TABLE := .none, VOID_TAG_NAMES := [],
     NO_ESCAPE_TAG_NAMES := [], isSpace := fun _ => false, lower := id }⟩

/-- a `dict[str, str]` table as a Python value -/
def embTbl (t : List (Char × Str)) : PVal := .dict (t.map fun kv => ([kv.1], .str kv.2))

end HtmlVerif.Py
