/-
C05 — No whitespace is ever injected into inline content.
-/
import HtmlVerif.Spec.Flat
import HtmlVerif.Lemmas.Infix
import HtmlVerif.Lemmas.Render
import HtmlVerif.Lemmas.WsSites

namespace HtmlVerif.C05
open HtmlVerif

/-- the flat form of a child list only depends on its visible members -/
theorem flatKids_eq_visible (cfg : Cfg) (ks : Nodes) (esc : Bool) :
    ks.flatKids cfg esc = ks.visible.flatMap (Node.flatIn cfg esc) := by
  induction ks using Nodes.rec (motive_1 := fun _ => True) with
  | nil => simp [Nodes.flatKids, Nodes.visible]
  | cons h t _ ih =>
    cases h <;> simp_all [Nodes.flatKids, Nodes.visible, Node.isMeta, Node.flatIn]
  | _ => trivial

mutual
  /-- a subtree in which no tag has whitespace enabled renders as the exact concatenation of its open
      tags, content and close tags — for every indent and eol (the only trace of `indent` is the caller's
      leading indentation) -/
  theorem C05_flat (cfg : Cfg) (name : Str) (ws : Bool) (attrs : Attrs) (kids : Nodes) (i : Nat) (e : Str)
      (h : (Node.tag name ws attrs kids).noWs = true) :
      (Node.tag name ws attrs kids).render cfg i e = indentStr i ++ (Node.tag name ws attrs kids).flat cfg := by
    simp only [Node.noWs, Bool.and_eq_true, Bool.not_eq_true'] at h
    obtain ⟨hws, hk⟩ := h
    subst hws
    have hkids := C05_flat_kids cfg kids (i + 1) e true (!cfg.noesc.contains name) hk
    have hvis := flatKids_eq_visible cfg kids (!cfg.noesc.contains name)
    simp only [Node.render, Node.flat]
    by_cases h0 : kids.visible.isEmpty = true
    · by_cases hv : name ∈ cfg.void <;> simp [h0, hv]
    · simp only [h0]
      cases h1 : inlineChild? kids.visible with
      | some c =>
        rw [hvis]
        rcases inlineChild?_some h1 with ⟨hc, hvv⟩ | ⟨hc, hvv⟩ <;>
          by_cases hn : name ∈ cfg.noesc <;>
          simp [hvv, Node.flatIn, inlineText, hn, hc]
      | none => simpa using hkids
  theorem C05_flat_kids (cfg : Cfg) (ks : Nodes) (i : Nat) (e : Str) (first esc : Bool)
      (h : ks.noWsKids = true) :
      ks.renderKids cfg i e first false esc = ks.flatKids cfg esc := by
    cases ks with
    | nil => simp [Nodes.renderKids, Nodes.flatKids]
    | cons x t =>
      simp only [Nodes.noWsKids, Bool.and_eq_true] at h
      obtain ⟨hx, ht⟩ := h
      have iht := C05_flat_kids cfg t i e false esc ht
      cases x with
      | tag n w a k =>
        have hw : w = false := by simp only [Node.noWs, Bool.and_eq_true, Bool.not_eq_true'] at hx; exact hx.1
        subst hw
        have ihx := C05_flat cfg n false a k 0 [] hx
        simp only [Nodes.renderKids, Nodes.flatKids]
        simp [ihx, iht, indentStr_zero]
      | mnode _ =>
        have iht' := C05_flat_kids cfg t i e first esc ht
        simp [Nodes.renderKids, Nodes.flatKids, iht']
      | dep _ _ _ =>
        have iht' := C05_flat_kids cfg t i e first esc ht
        simp [Nodes.renderKids, Nodes.flatKids, iht']
      | _ => simp [Nodes.renderKids, Nodes.flatKids, iht]
end

/-- top-level list whose members contain no whitespace-enabled tag, laid out with `add_ws=False` -/
theorem C05_flat_list (cfg : Cfg) (ks : Nodes) (i : Nat) (e : Str) (esc : Bool) (h : ks.noWsKids = true) :
    renderList cfg ks i e false esc = ks.flatKids cfg esc :=
  C05_flat_kids cfg ks i e true esc h

/-! ### contiguity: the flat string appears verbatim wherever the subtree is placed -/

/-- what the child loop emits for one whitespace-free visible child contains its flat form -/
theorem child_infix (cfg : Cfg) (ks : Nodes) (x : Node) (hx : x ∈ ks.visible) (hn : x.noWs = true)
    (i : Nat) (e : Str) (first prevWs esc : Bool) :
    x.flatIn cfg esc <:+: ks.renderKids cfg i e first prevWs esc := by
  induction ks using Nodes.rec (motive_1 := fun _ => True) generalizing first prevWs with
  | nil => simp [Nodes.visible] at hx
  | cons h t _ ih =>
    by_cases hm : h.isMeta = true
    · have hx' : x ∈ t.visible := by simpa [Nodes.visible, hm] using hx
      cases h <;> simp [Node.isMeta] at hm <;> simp only [Nodes.renderKids] <;> exact ih hx' first prevWs
    · simp only [Nodes.visible, hm] at hx
      rcases List.mem_cons.mp hx with rfl | hx'
      · cases x with
        | tag n w a k =>
          have hw : w = false := by
            simp only [Node.noWs, Bool.and_eq_true, Bool.not_eq_true'] at hn; exact hn.1
          subst hw
          simp only [Nodes.renderKids, Node.flatIn]
          apply infix_app_left
          apply infix_app_right
          split
          · rw [C05_flat cfg n false a k i e hn]; exact infix_app_self _ _
          · rw [C05_flat cfg n false a k 0 [] hn]; exact infix_app_self _ _
        | mnode _ => simp [Node.isMeta] at hm
        | dep _ _ _ => simp [Node.isMeta] at hm
        | text s =>
          simp only [Nodes.renderKids, Node.flatIn]
          apply infix_app_left; apply infix_app_right; exact List.infix_refl _
        | html s =>
          simp only [Nodes.renderKids, Node.flatIn]
          apply infix_app_left; apply infix_app_right; exact List.infix_refl _
        | robj s =>
          simp only [Nodes.renderKids, Node.flatIn]
          apply infix_app_left; apply infix_app_right; exact List.infix_refl _
        | tobjL rh c =>
          simp only [Nodes.renderKids, Node.flatIn]
          apply infix_app_left; apply infix_app_right; exact List.infix_refl _
        | tobj1 rh c =>
          simp only [Nodes.renderKids, Node.flatIn]
          apply infix_app_left; apply infix_app_right; exact List.infix_refl _
      · cases h <;> simp only [Nodes.renderKids] <;> first
          | exact infix_app_right _ (ih hx' _ _)
          | exact ih hx' _ _
  | _ => trivial

/-- a visible child tag's own rendering (at some indent/eol) is a contiguous part of the child loop's output -/
theorem child_render_infix (cfg : Cfg) (ks : Nodes) (x : Node) (hx : x ∈ ks.visible) (ht : x.isTag = true)
    (i : Nat) (e : Str) (first prevWs esc : Bool) :
    ∃ i' e', x.render cfg i' e' <:+: ks.renderKids cfg i e first prevWs esc := by
  induction ks using Nodes.rec (motive_1 := fun _ => True) generalizing first prevWs with
  | nil => simp [Nodes.visible] at hx
  | cons h t _ ih =>
    by_cases hm : h.isMeta = true
    · have hx' : x ∈ t.visible := by simpa [Nodes.visible, hm] using hx
      cases h <;> simp [Node.isMeta] at hm <;> simp only [Nodes.renderKids] <;> exact ih hx' first prevWs
    · simp only [Nodes.visible, hm] at hx
      rcases List.mem_cons.mp hx with rfl | hx'
      · cases x with
        | tag n w a k =>
          simp only [Nodes.renderKids]
          by_cases hpc : (prevWs || w) = true
          · exact ⟨i, e, by simp only [hpc, if_true]; exact infix_app_left _ (infix_app_self _ _)⟩
          · exact ⟨0, [], by simp only [hpc]; exact infix_app_left _ (infix_app_self _ _)⟩
        | _ => simp [Node.isTag] at ht
      · cases h with
        | tag n w a k =>
          obtain ⟨i', e', hh⟩ := ih hx' false w
          exact ⟨i', e', by simp only [Nodes.renderKids]; exact infix_app_right _ hh⟩
        | mnode _ => simp [Node.isMeta] at hm
        | dep _ _ _ => simp [Node.isMeta] at hm
        | _ =>
          obtain ⟨i', e', hh⟩ := ih hx' false false
          exact ⟨i', e', by simp only [Nodes.renderKids]; exact infix_app_right _ hh⟩
  | _ => trivial

/-- one level: a whitespace-free visible child of a tag appears flat inside the tag's rendering -/
theorem child_of_tag_infix (cfg : Cfg) (name : Str) (ws : Bool) (attrs : Attrs) (kids : Nodes) (x : Node)
    (hx : x ∈ kids.visible) (hn : x.noWs = true) (i : Nat) (e : Str) :
    x.flatIn cfg (!cfg.noesc.contains name) <:+: (Node.tag name ws attrs kids).render cfg i e := by
  have hgen := child_infix cfg kids x hx hn (i + 1) e true ws (!cfg.noesc.contains name)
  simp only [Node.render]
  by_cases h0 : kids.visible.isEmpty = true
  · simp only [List.isEmpty_iff] at h0; simp [h0] at hx
  · simp only [h0]
    cases h1 : inlineChild? kids.visible with
    | some c =>
      have hfl : x.flatIn cfg (!cfg.noesc.contains name) = inlineText cfg name c := by
        rcases inlineChild?_some h1 with ⟨hc, hvv⟩ | ⟨hc, hvv⟩ <;>
          (rw [hvv] at hx; simp only [List.mem_singleton] at hx; subst hx)
          <;> by_cases hne : name ∈ cfg.noesc <;> simp [Node.flatIn, inlineText, hne, hc]
      rw [hfl]
      exact ⟨indentStr i ++ openTag cfg name attrs ++ ['>'], closeTag name, by simp⟩
    | none =>
      exact infix_app_left _ (infix_app_left _ (infix_app_right _ hgen))

theorem child_tag_of_tag_infix (cfg : Cfg) (name : Str) (ws : Bool) (attrs : Attrs) (kids : Nodes) (x : Node)
    (hx : x ∈ kids.visible) (ht : x.isTag = true) (i : Nat) (e : Str) :
    ∃ i' e', x.render cfg i' e' <:+: (Node.tag name ws attrs kids).render cfg i e := by
  obtain ⟨i', e', hgen⟩ := child_render_infix cfg kids x hx ht (i + 1) e true ws (!cfg.noesc.contains name)
  refine ⟨i', e', ?_⟩
  simp only [Node.render]
  by_cases h0 : kids.visible.isEmpty = true
  · simp only [List.isEmpty_iff] at h0; simp [h0] at hx
  · simp only [h0]
    cases h1 : inlineChild? kids.visible with
    | some c =>
      rcases inlineChild?_some h1 with ⟨hc, hvv⟩ | ⟨hc, hvv⟩ <;>
        (rw [hvv] at hx; simp only [List.mem_singleton] at hx; subst hx; simp [Node.isTag] at ht)
    | none =>
      exact infix_app_left _ (infix_app_left _ (infix_app_right _ hgen))

/-- wherever a whitespace-free subtree is placed (any depth, under any mixture of block and inline
    ancestors, any indent and eol), its exact flat string appears contiguously in the output -/
theorem C05_contiguous (cfg : Cfg) (sub T : Node) (b : Bool) (hd : VisDesc cfg sub b T)
    (hn : sub.noWs = true) (i : Nat) (e : Str) :
    sub.flatIn cfg b <:+: T.render cfg i e := by
  induction hd generalizing i e with
  | child hx => exact child_of_tag_infix cfg _ _ _ _ _ hx hn i e
  | @deeper name ws attrs kids h sub b hx hsub ih =>
    have htag : h.isTag = true := by cases hsub <;> rfl
    obtain ⟨i', e', hh⟩ := child_tag_of_tag_infix cfg name ws attrs kids h hx htag i e
    exact infix_trans' (ih hn i' e') hh

/-! ### adjacency: nothing is emitted between two whitespace-free siblings -/

/-- in the child loop, a whitespace-free child followed (after any metadata nodes) by another
    whitespace-free child: the two flat forms are emitted back to back -/
theorem adjacent_head (cfg : Cfg) (a : Node) (rest : Nodes) (b : Node) (post : List Node)
    (ha : a.isMeta = false) (hna : a.noWs = true) (hnb : b.noWs = true)
    (hrest : rest.visible = b :: post) (i : Nat) (e : Str) (first prevWs esc : Bool) :
    a.flatIn cfg esc ++ b.flatIn cfg esc <:+: (Nodes.cons a rest).renderKids cfg i e first prevWs esc := by
  -- the loop state after `a` is prevWs = false; the rest then starts with b's flat form
  have hb : ∀ (first : Bool), ∃ tail, rest.renderKids cfg i e first false esc = b.flatIn cfg esc ++ tail := by
    clear ha hna
    induction rest using Nodes.rec (motive_1 := fun _ => True) with
    | nil => simp [Nodes.visible] at hrest
    | cons h t _ ih =>
      intro first
      by_cases hm : h.isMeta = true
      · have : t.visible = b :: post := by simpa [Nodes.visible, hm] using hrest
        cases h <;> simp [Node.isMeta] at hm <;> simp only [Nodes.renderKids] <;> exact ih this first
      · simp only [Nodes.visible, hm] at hrest
        injection hrest with h1 h2
        subst h1
        cases h with
        | tag n w atr k =>
          have hw : w = false := by
            simp only [Node.noWs, Bool.and_eq_true, Bool.not_eq_true'] at hnb; exact hnb.1
          subst hw
          refine ⟨t.renderKids cfg i e false false esc, ?_⟩
          simp only [Nodes.renderKids, Node.flatIn]
          rw [C05_flat cfg n false atr k 0 [] hnb]
          simp [indentStr_zero]
        | mnode _ => simp [Node.isMeta] at hm
        | dep _ _ _ => simp [Node.isMeta] at hm
        | _ => exact ⟨t.renderKids cfg i e false false esc, by simp [Nodes.renderKids, Node.flatIn]⟩
    | _ => trivial
  obtain ⟨tail, htail⟩ := hb false
  cases a with
  | tag n w atr k =>
    have hw : w = false := by
      simp only [Node.noWs, Bool.and_eq_true, Bool.not_eq_true'] at hna; exact hna.1
    subst hw
    have h1 := C05_flat cfg n false atr k i e hna
    have h2 := C05_flat cfg n false atr k 0 [] hna
    have hfa : Node.flatIn cfg esc (.tag n false atr k) = (Node.tag n false atr k).flat cfg := rfl
    have : (Nodes.cons (.tag n false atr k) rest).renderKids cfg i e first prevWs esc
        = ((if (!first && prevWs) = true then e else []) ++ (if prevWs = true then indentStr i else []))
          ++ ((Node.tag n false atr k).flat cfg ++ b.flatIn cfg esc) ++ tail := by
      simp only [Nodes.renderKids, htail]
      cases prevWs <;> simp [h1, h2]
    rw [hfa]
    exact ⟨_, _, this.symm⟩
  | mnode _ => simp [Node.isMeta] at ha
  | dep _ _ _ => simp [Node.isMeta] at ha
  | text s =>
    have hfa : Node.flatIn cfg esc (.text s) = (if esc then escText cfg s else s) := rfl
    rw [hfa]
    simp only [Nodes.renderKids, htail]
    exact ⟨(if (!first && prevWs) = true then e else []) ++ (if prevWs = true then indentStr i else []), tail, by simp⟩
  | html s =>
    have hfa : Node.flatIn cfg esc (.html s) = (s) := rfl
    rw [hfa]
    simp only [Nodes.renderKids, htail]
    exact ⟨(if (!first && prevWs) = true then e else []) ++ (if prevWs = true then indentStr i else []), tail, by simp⟩
  | robj s =>
    have hfa : Node.flatIn cfg esc (.robj s) = (s) := rfl
    rw [hfa]
    simp only [Nodes.renderKids, htail]
    exact ⟨(if (!first && prevWs) = true then e else []) ++ (if prevWs = true then indentStr i else []), tail, by simp⟩
  | tobjL rh c =>
    have hfa : Node.flatIn cfg esc (.tobjL rh c) = (rh.getD []) := rfl
    rw [hfa]
    simp only [Nodes.renderKids, htail]
    exact ⟨(if (!first && prevWs) = true then e else []) ++ (if prevWs = true then indentStr i else []), tail, by simp⟩
  | tobj1 rh c =>
    have hfa : Node.flatIn cfg esc (.tobj1 rh c) = (rh.getD []) := rfl
    rw [hfa]
    simp only [Nodes.renderKids, htail]
    exact ⟨(if (!first && prevWs) = true then e else []) ++ (if prevWs = true then indentStr i else []), tail, by simp⟩

/-- adjacent siblings (adjacent among the *visible* children, at any position in the list) neither of which
    contains a whitespace-enabled tag are emitted with nothing between them -/
theorem C05_adjacent (cfg : Cfg) (ks : Nodes) (pre : List Node) (a b : Node) (post : List Node)
    (hv : ks.visible = pre ++ a :: b :: post) (hna : a.noWs = true) (hnb : b.noWs = true)
    (i : Nat) (e : Str) (first prevWs esc : Bool) :
    a.flatIn cfg esc ++ b.flatIn cfg esc <:+: ks.renderKids cfg i e first prevWs esc := by
  induction ks using Nodes.rec (motive_1 := fun _ => True) generalizing pre first prevWs with
  | nil => cases pre <;> simp [Nodes.visible] at hv
  | cons h t _ ih =>
    by_cases hm : h.isMeta = true
    · have hv' : t.visible = pre ++ a :: b :: post := by simpa [Nodes.visible, hm] using hv
      cases h <;> simp [Node.isMeta] at hm <;> simp only [Nodes.renderKids] <;> exact ih pre hv' first prevWs
    · simp only [Nodes.visible, hm] at hv
      cases pre with
      | nil =>
        simp only [List.nil_append] at hv
        injection hv with h1 h2
        subst h1
        exact adjacent_head cfg h t b post (by simpa using hm) hna hnb h2 i e first prevWs esc
      | cons p pre' =>
        simp only [List.cons_append] at hv
        injection hv with h1 h2
        cases h <;> simp only [Nodes.renderKids] <;> first
          | exact infix_app_right _ (ih pre' h2 _ _)
          | exact ih pre' h2 _ _
  | _ => trivial

/-- non-vacuity: an inline subtree nested under a block tag -/
example : VisDesc ⟨[], [], [], []⟩ (.text ['x']) true
    (.tag ['d'] true [] (.cons (.tag ['s'] false [] (.cons (.text ['x']) .nil)) .nil)) :=
  .deeper (h := .tag ['s'] false [] (.cons (.text ['x']) .nil)) (by simp [Nodes.visible, Node.isMeta])
    (.child (by simp [Nodes.visible, Node.isMeta]))

end HtmlVerif.C05


/-! ### clause 4: where layout whitespace can appear -/
namespace HtmlVerif.C05
open HtmlVerif

theorem rightJustified_tag (cfg : Cfg) (name : Str) (ws : Bool) (attrs : Attrs) (kids : Nodes) (i : Nat) (e : Str)
    (X : List Piece) : rightJustified ((Node.tag name ws attrs kids).pieces cfg i e ++ X) = ws := by
  simp only [Node.pieces]
  by_cases h0 : kids.visible.isEmpty = true
  · by_cases hv : name ∈ cfg.void <;> simp [h0, hv]
  · simp only [h0]
    cases h1 : inlineChild? kids.visible <;> simp

mutual
  /-- scanning the pieces of a tag never finds an unjustified whitespace run, and ends next to this tag's
      closing (or self-closed opening) tag; the tag's own leading indentation must be justified by the
      context (`left`), by the tag being a block tag, or be empty -/
  theorem wsSites_tag (cfg : Cfg) (t : Node) (i : Nat) (e : Str) (left : Bool) (R : List Piece) :
      ∀ name ws attrs kids, t = .tag name ws attrs kids →
      (left || ws || (indentStr i).isEmpty) = true →
      wsSitesOk left (t.pieces cfg i e ++ R) = wsSitesOk ws R := by
    intro name ws attrs kids ht hpre
    subst ht
    have hk := wsSites_kids cfg kids (i + 1) e
    have hlead : ((indentStr i).isEmpty || left || ws) = true := by
      revert hpre; cases left <;> cases ws <;> cases (indentStr i).isEmpty <;> simp
    simp only [Node.pieces]
    by_cases h0 : kids.visible.isEmpty = true
    · by_cases hv : name ∈ cfg.void <;> simp [h0, hv, wsSitesOk_wsP, hlead]
    · simp only [h0]
      cases h1 : inlineChild? kids.visible with
      | some c => simp [wsSitesOk_wsP, hlead]
      | none =>
        cases ws with
        | false =>
          have := hk true false (!cfg.noesc.contains name) false (Piece.cls name false :: R) (by simp)
          simp only [List.contains_eq_mem] at this
          simp [wsSitesOk_wsP, hlead, this]
        | true =>
          have := hk true true (!cfg.noesc.contains name) true
            (wsP (e ++ indentStr i) ++ Piece.cls name true :: R) (by simp)
          simp only [List.contains_eq_mem] at this
          simp [wsSitesOk_wsP, this]
  theorem wsSites_kids (cfg : Cfg) (ks : Nodes) (i : Nat) (e : Str) (first prevWs esc left : Bool)
      (R : List Piece) (hl : prevWs = true → left = true) :
      wsSitesOk left (ks.piecesKids cfg i e first prevWs esc ++ R) = wsSitesOk (ks.finalL left) R := by
    cases ks with
    | nil => simp [Nodes.piecesKids, Nodes.finalL]
    | cons h t =>
      cases h with
      | mnode _ => simpa [Nodes.piecesKids, Nodes.finalL] using wsSites_kids cfg t i e first prevWs esc left R hl
      | dep _ _ _ => simpa [Nodes.piecesKids, Nodes.finalL] using wsSites_kids cfg t i e first prevWs esc left R hl
      | tag n w a k =>
        have hrest := wsSites_kids cfg t i e false w esc w R (fun h => h)
        have hT1 := wsSites_tag cfg (.tag n w a k) i e left (t.piecesKids cfg i e false w esc ++ R) n w a k rfl
        have hT0 := wsSites_tag cfg (.tag n w a k) 0 [] left (t.piecesKids cfg i e false w esc ++ R) n w a k rfl
          (by simp)
        have hrj := rightJustified_tag cfg n w a k i e (t.piecesKids cfg i e false w esc ++ R)
        simp only [Nodes.piecesKids, Nodes.finalL]
        cases prevWs with
        | true =>
          have hL : left = true := hl rfl
          subst hL
          cases first <;> simp [wsSitesOk_wsP, hT1, hrest]
        | false =>
          cases w with
          | true => cases first <;> simp [wsSitesOk_wsP, hT1, hrest, hrj]
          | false => cases first <;> simp [hT0, hrest]
      | text s =>
        have hrest := wsSites_kids cfg t i e false false esc false R (by simp)
        simp only [Nodes.piecesKids, Nodes.finalL]
        cases prevWs with
        | true =>
          have hL : left = true := hl rfl
          subst hL
          cases first <;> simp [wsSitesOk_wsP, hrest]
        | false => cases first <;> simp [hrest]
      | html s =>
        have hrest := wsSites_kids cfg t i e false false esc false R (by simp)
        simp only [Nodes.piecesKids, Nodes.finalL]
        cases prevWs with
        | true =>
          have hL : left = true := hl rfl
          subst hL
          cases first <;> simp [wsSitesOk_wsP, hrest]
        | false => cases first <;> simp [hrest]
      | robj s =>
        have hrest := wsSites_kids cfg t i e false false esc false R (by simp)
        simp only [Nodes.piecesKids, Nodes.finalL]
        cases prevWs with
        | true =>
          have hL : left = true := hl rfl
          subst hL
          cases first <;> simp [wsSitesOk_wsP, hrest]
        | false => cases first <;> simp [hrest]
      | tobjL rh c =>
        have hrest := wsSites_kids cfg t i e false false esc false R (by simp)
        simp only [Nodes.piecesKids, Nodes.finalL]
        cases prevWs with
        | true =>
          have hL : left = true := hl rfl
          subst hL
          cases first <;> simp [wsSitesOk_wsP, hrest]
        | false => cases first <;> simp [hrest]
      | tobj1 rh c =>
        have hrest := wsSites_kids cfg t i e false false esc false R (by simp)
        simp only [Nodes.piecesKids, Nodes.finalL]
        cases prevWs with
        | true =>
          have hL : left = true := hl rfl
          subst hL
          cases first <;> simp [wsSitesOk_wsP, hrest]
        | false => cases first <;> simp [hrest]
end

/-- within a rendered tag, every maximal run of layout whitespace (after the caller's own leading
    indentation) is immediately after or immediately before the opening or closing tag of a
    whitespace-enabled tag — for every tree (block-inside-inline nestings included), indent and eol.
    Together with `render_eq_pieces` (the pieces realise to exactly the rendered string) this is a
    statement about the output. -/
theorem C05_ws_sites (cfg : Cfg) (name : Str) (ws : Bool) (attrs : Attrs) (kids : Nodes) (i : Nat) (e : Str) :
    wsSitesOk true ((Node.tag name ws attrs kids).pieces cfg i e) = true := by
  have := wsSites_tag cfg (.tag name ws attrs kids) i e true [] name ws attrs kids rfl (by simp)
  simpa [wsSitesOk] using this

/-- the same for a top-level list -/
theorem C05_ws_sites_list (cfg : Cfg) (ks : Nodes) (i : Nat) (e : Str) (aw esc : Bool) :
    wsSitesOk true (ks.piecesKids cfg i e true aw esc) = true := by
  have := wsSites_kids cfg ks i e true aw esc true [] (fun _ => rfl)
  simpa [wsSitesOk] using this

end HtmlVerif.C05
