"""C04 — Trusted markup is emitted verbatim and escaping happens exactly once."""
from __future__ import annotations

import itertools

import core
import gen
import subst
from wire import es

PID = "C04"
MANIFEST = dict(
    text="Lean theorems: HTML() children, _repr_html_() results and text directly under script/style are emitted exactly once each, in "
         "document order, verbatim, on every rendering path (C04_child_verbatim over the piece view of the renderer, C04_raw_realize, "
         "C04_rawtext_both_paths); HTML() attribute values verbatim (C04_attr_verbatim); for every finite expression of + / reflected + / += "
         "over str, HTML and other objects the result is HTML iff an operand is and renders as the operands rendered separately, each plain "
         "operand escaped exactly once (C04_concat, C04_concat_regroup, C04_concat_total) — all by induction, all sizes. Tie: marker "
         "substitution on the real renderer; all expressions up to 4-5 operands x groupings x both operators evaluated with the real classes.",
    design="DESIGN.md §6 C04",
    note="Modelled, not verified: Python's binary-operator dispatch (NotImplemented fallback to __radd__, += falling back to +), UserString.",
    technique="Lean 4 proof (mutual structural induction over trees; induction over expressions) + differential correspondence",
)
PROP_FILES = ["HtmlVerif/Props/C04.lean", "HtmlVerif/Props/SrcEscape.lean", "HtmlVerif/Props/SrcC08b.lean", "HtmlVerif/Props/SrcRender.lean"]


def exprs(leaves, n):
    """all binary trees with n leaves (ordered) over the given leaf alternatives"""
    if n == 1:
        for l in leaves:
            yield ("L",) + l
        return
    for k in range(1, n):
        for a in exprs(leaves, k):
            for b in exprs(leaves, n - k):
                yield ("A", a, b)


def enc(e) -> str:
    if e[0] == "L":
        return f"L {e[1]} {es(e[2])}"
    return f"A {enc(e[1])} {enc(e[2])}"


def has_h(e) -> bool:
    return e[1] == "h" if e[0] == "L" else has_h(e[1]) or has_h(e[2])


def direct_verbatim(line: str, real_out: str):
    """direct (weaker, layout-free) form of the statement, used when the marker skeleton cannot be aligned:
    every HTML() / _repr_html_ / script-style text content must occur byte for byte in the output, in document order"""
    from wire import Toks, p_node, p_list
    t = Toks(line)
    opn = t.next()
    if opn == "render_tag_via":
        t.next()
    raws = []

    def walk(n, esc):
        if n[0] == "tag":
            e2 = n[1] not in ("script", "style")
            for c in n[4]:
                walk(c, e2)
        elif n[0] in ("html", "robj") or (n[0] == "text" and not esc):
            raws.append(n[1])
    if opn == "render_list":
        ns = p_list(t, p_node)
        for n in ns:
            walk(n, True)
    else:
        walk(p_node(t), True)
    pos = 0
    for r in raws:
        k = real_out.find(r, pos)
        if k < 0:
            return False
        pos = k + len(r)
    return True


def attr_helpers_keep_markup(ck) -> int:
    """trusted markup held in a class / style attribute stays verbatim through the helpers that edit the attribute
    (add_class, add_style with and without prepend, remove_class of another token): whatever the attribute looked like
    before — with or without a trailing semicolon, given at construction or through attrs — the HTML() part is written
    byte for byte and the plain part is escaped once"""
    from htmltools import HTML, Tag
    n = 0
    trusted = ["a&b", "x<y;", 'q"r', "u:url('a&b')", "m&amp;n;", "k:v", "l\nm;", "&lt;"]
    added = [("p", "c:d;"), ("h", "e&f;"), ("p", "g<h;"), ("h", 'i"j;')]
    for t0 in trusted:
        for how in ("ctor", "attrs"):
            for kind, x in added:
                for pre in (False, True):
                    n += 1
                    tag = Tag("div", style=HTML(t0)) if how == "ctor" else Tag("div")
                    if how == "attrs":
                        tag.attrs["style"] = HTML(t0)
                    try:
                        tag.add_style(HTML(x) if kind == "h" else x, prepend=pre)
                        out = tag.get_html_string()
                    except Exception as e:  # noqa: BLE001
                        out = f"raised {type(e).__name__}: {e}"
                    ck.holds_checked += 1
                    if f'"{t0} ' not in out and f' {t0}"' not in out:
                        ck.py_violation(f"add_style {how} {t0!r} {kind} {x!r} prepend={pre}", out,
                                        f"the trusted style value {t0!r} is not written verbatim after add_style: {out!r}",
                                        py=f"t = Tag('div', style=HTML({t0!r})); t.add_style({'HTML(' + repr(x) + ')' if kind == 'h' else repr(x)}, prepend={pre}); t.get_html_string()")
            for tok in ("tok", "a<b"):
                n += 1
                tag = Tag("div", class_=HTML(t0 + " z"))
                try:
                    tag.add_class(tok)
                    tag.remove_class("z")
                    out = tag.get_html_string()
                except Exception as e:  # noqa: BLE001
                    out = f"raised {type(e).__name__}: {e}"
                ck.holds_checked += 1
                first = " ".join(t0.split())       # remove_class re-joins the remaining tokens by single spaces
                if f'"{first} ' not in out:
                    ck.py_violation(f"class helpers {t0!r} {tok!r}", out,
                                    f"the trusted class value {t0!r} is not written verbatim after add_class / remove_class: {out!r}",
                                    py=f"t = Tag('div', class_=HTML({(t0 + ' z')!r})); t.add_class({tok!r}); t.remove_class('z'); t.get_html_string()")
    ck.exhaustive_scopes.append({"scope": "attribute helpers keep trusted markup verbatim: 8 HTML() style / class values (with and without a "
                                          "trailing semicolon, with & < \" ' LF) x {constructor, attrs[...]} x 4 added values x prepend; add_class + remove_class",
                                 "n": n, "exhaustive": True})
    return n


def every_path(ck, rng) -> int:
    """"on every rendering path": the same trusted markup through Tag / TagList / HTMLDocument rendering, through a
    dependency's head hoisted by HTMLDocument, and through HTMLTextDocument's placeholder substitution"""
    from htmltools import HTML, HTMLDependency, HTMLDocument, HTMLTextDocument, Tag, TagList
    import adapters
    pool = ['<b>x</b>', 'a\\n"b"', "\\d+ \\1 \\g<0>", "back\\\\slash", "<script>window.sep = \"\\n\";</script>", "&amp; &lt;", "é\u2028", "</div>",
            "<style>q:before{content:\"\\201C\"}</style>", "\\", "$1 \\0", gen.alias_string(rng, 48), gen.alias_string(rng, 100)]
    n = 0
    for s in pool + [gen.rand_text(rng, 12) + "\\" + gen.rand_text(rng, 4) for _ in range(ck.budget(30, 400))]:
        dep_h = HTMLDependency("d", "1.0", head=HTML(s))
        dep_s = HTMLDependency("e", "1.0", head=s)          # a str head is documented to be taken as HTML
        dep_t = HTMLDependency("f", "1.0", head=TagList(Tag("script", s), Tag("style", s, "x")))
        robj = adapters.ReprObj(s)
        paths = {
            "Tag.get_html_string": lambda: Tag("div", HTML(s), Tag("p", robj)).get_html_string(),
            "Tag.render": lambda: Tag("div", "t", HTML(s)).render()["html"],
            "str(TagList)": lambda: str(TagList(HTML(s), "t", robj)),
            "HTMLDocument body": lambda: HTMLDocument(Tag("div", HTML(s)), Tag("script", s)).render()["html"],
            "HTMLDocument head (HTML head)": lambda: HTMLDocument(Tag("div", dep_h)).render()["html"],
            "HTMLDocument head (str head)": lambda: HTMLDocument(Tag("div", dep_s)).render()["html"],
            "HTMLDocument head (script/style text)": lambda: HTMLDocument(Tag("div", dep_t)).render()["html"],
            "HTMLTextDocument (HTML head)": lambda: HTMLTextDocument("<html><head>PH</head><body>PH</body></html>", [dep_h], "PH").render()["html"],
            "HTMLTextDocument (str head)": lambda: HTMLTextDocument("<head>PH</head>", [dep_s], "PH").render()["html"],
            "HTMLTextDocument (script/style text)": lambda: HTMLTextDocument("<head>PH</head>", [dep_t], "PH").render()["html"],
            # the HTML() object itself as the iterable of a child operation: its pieces are trusted markup too
            "TagList.extend(HTML)": lambda: (lambda x: (x.extend(HTML(s)), x.get_html_string())[1])(TagList("t")),
            "TagList += HTML": lambda: (lambda x: (x.__iadd__(HTML(s)), str(x))[1])(TagList()),
            "TagList + HTML": lambda: (TagList("t") + HTML(s)).get_html_string(),
            "Tag.extend(HTML)": lambda: (lambda x: (x.extend(HTML(s)), x.get_html_string())[1])(Tag("span", "t")),
        }
        for name, f in paths.items():
            n += 1
            ck.holds_checked += 1
            try:
                out = f()
            except Exception as e:  # noqa: BLE001
                ck.py_violation(f"path {name} {s!r}", f"raised {type(e).__name__}: {e}", f"rendering trusted markup {s!r} through {name} raised {type(e).__name__}: {e}",
                                py=f"content {s!r} via {name}")
                continue
            if s not in out:
                ck.py_violation(f"path {name} {s!r}", out[:300], f"trusted markup {s!r} does not appear byte for byte in the output of {name}",
                                py=f"content {s!r} via {name}")
    return n


def run(tier: str) -> int:
    ck = core.Check(PID, tier, PROP_FILES)
    ck.prepare()
    rng = ck.rng
    ck.rule = ("expression cases: one per (operator, expression tree); non-trivial = mixes HTML with at least one non-HTML operand; "
               "tree cases: one per rendering with marker substitution; non-trivial = has an HTML()/_repr_html_/script-text slot; distinct by wire line")
    lines = []
    leaves = [("p", "&"), ("h", "<b>"), ("p", "a"), ("o", "<7>")]
    maxn = 4 if tier == "quick" else 5
    n_e = 0
    for n in range(1, maxn + 1):
        for e in exprs(leaves if n < 5 else leaves[:3], n):
            for mode in ("+", "+=", "+=alias", "+sub", "+=sub"):
                lines.append(f"hexpr {mode} {enc(e)}")
            n_e += 1
    ck.exhaustive_scopes.append({"scope": f"all expressions with <= {maxn} operands over {{str '&', HTML '<b>', str 'a', other '<7>'}} x all groupings x {{+, +=}}",
                                 "expressions": n_e, "exhaustive": True})
    pool = [("p", s) for s in gen.TEXT_POOL] + [("h", s) for s in gen.HTML_POOL] + [("o", "1<2"), ("o", "")]
    for _ in range(ck.budget(2000, 40000)):
        n = rng.randint(2, 7)

        def build(k):
            if k == 1:
                kind, s = rng.choice(pool)
                if rng.random() < 0.3:
                    s = gen.rand_text(rng, 10)
                return ("L", kind, s)
            j = rng.randint(1, k - 1)
            return ("A", build(j), build(k - j))
        lines.append(f"hexpr {rng.choice(['+', '+=', '+=alias', '+sub', '+=sub'])} {enc(build(n))}")
    impl = core.impl_many(lines)
    for l, im in zip(lines, impl):
        ck.add(l, im, nontrivial=(" h " in l and (" p " in l or " o " in l)), tag="hexpr")
    ck.add_src(['HTML_add', 'HTML_radd', 'add', 'HTML_as_string', 'normalize_text'])
    ck.add_src(['HTML_initC08b', 'HTML_strC08b', 'HTML_reprC08b', 'HTML_repr_htmlC08b'], quick=150, thorough=1000)
    ck.correspond(holds=True)
    # tree level
    fns = gen.fn_catalogue(ck.proof.translate_info)
    cases = []
    bound = 4 if tier == "quick" else 5
    tl = [("text", "<&>"), ("html", "<i>&amp;"), ("html", ""), ("robj", "<u>\n</u>"), ("meta", 0)]
    tg = [("div", True), ("span", False), ("script", True), ("style", False)]
    n_ex = 0
    for t in gen.trees_upto(bound, tl, tg):
        if t[0] == "tag":
            cases.append(("tag", t, 1, "\n"))
            n_ex += 1
    ck.exhaustive_scopes.append({"scope": f"marker substitution on all tag-rooted trees <= {bound} nodes over {{div,span,script,style}} x 5 leaf kinds (1-3 children under script/style included)",
                                 "trees": n_ex, "exhaustive": True})
    for _ in range(ck.budget(1500, 30000)):
        t = gen.rand_tag(rng, rng.randint(1, 6), leaves=("text", "html", "html", "robj", "meta"), all_names=fns)
        cases.append(("tag", t, rng.choice([0, 1, 3]), rng.choice(["\n", "", "\r\n", "<!>"])))
    for mode in ("append", "extend", "insert", "nested"):
        for _ in range(ck.budget(100, 2000)):
            cases.append(("via", mode, gen.rand_tag(rng, 3, leaves=("html", "robj", "text")), 0, "\n"))
    for _ in range(ck.budget(300, 5000)):
        ks = [gen.rand_node(rng, rng.randint(0, 3), leaves=("html", "robj", "text", "meta")) for _ in range(rng.randint(1, 5))]
        cases.append(("list", ks, rng.choice([0, 1]), "\n", rng.random() < 0.5, rng.random() < 0.7))
    for t in gen.alias_trees(rng, ck.budget(300, 4000)):
        cases.append(("tag", t, rng.choice([0, 1]), "\n"))
    ck.exhaustive_scopes.append({"scope": "aliasing stream: one string as HTML(), text, _repr_html_ and attribute values in one tree, lengths " + str(gen.ALIAS_LENGTHS), "exhaustive": False})
    cases += gen.boundary_cases(rng)
    ck.exhaustive_scopes.append({"scope": "width stream: fan-out / attribute count in " + str(gen.WIDTHS) + " x 5 child kinds x 3 parents; text lengths "
                                          + str(gen.ALIAS_LENGTHS) + "; case variants / near misses of void and no-escape names", "exhaustive": True})
    subst.check_cases(ck, cases, {"r", "h"}, "trusted markup must be emitted byte for byte", direct=direct_verbatim)
    n_paths = every_path(ck, rng)
    n_paths += attr_helpers_keep_markup(ck)
    ck.extra_cov["extra_evaluations"] = len(cases) + n_paths
    ck.extra_cov["rendering_path_cases"] = n_paths
    ck.extra_cov["tree_cases"] = len(cases)
    ck.distinct_nontrivial += len({repr(c) for c in cases})
    return ck.finish()
