/-
"Pieces": the same recursion as the renderer (Model/Render.lean), emitting a list of typed pieces
instead of a string.  `render_eq_pieces` (Lemmas/Pieces.lean) proves that realising the pieces gives
exactly the rendered string, so statements about *where* something is emitted become statements
about the piece list (used by C02, C04, C05, C01).
-/
import HtmlVerif.Model.Render

namespace HtmlVerif

inductive Piece
  | opn (name : Str) (ws : Bool) (attrs : Attrs) (selfClose : Bool)   -- a whole opening tag `<n a="v">` / `<n a="v"/>`
  | cls (name : Str) (ws : Bool)                                     -- `</n>`
  | ws (s : Str)                                                     -- layout whitespace: eol / indentation
  | txt (s : Str)                                                    -- plain-text leaf in an escaping context
  | raw (s : Str)                                                    -- HTML(), _repr_html_() result, text under script/style
  deriving DecidableEq, Repr

def Piece.realize (cfg : Cfg) : Piece → Str
  | .opn n _ a sc => openTag cfg n a ++ (if sc then ['/', '>'] else ['>'])
  | .cls n _ => closeTag n
  | .ws s => s
  | .txt s => escText cfg s
  | .raw s => s

def realizeAll (cfg : Cfg) (ps : List Piece) : Str := ps.flatMap (Piece.realize cfg)

/-- layout whitespace piece, omitted when empty -/
def wsP (s : Str) : List Piece := if s = [] then [] else [.ws s]

def textP (esc : Bool) (s : Str) : Piece := if esc then .txt s else .raw s

mutual
  def Node.pieces (cfg : Cfg) : Node → Nat → Str → List Piece
    | .tag name ws attrs kids, indent, eol =>
      if kids.visible.isEmpty then
        if cfg.void.contains name then wsP (indentStr indent) ++ [.opn name ws attrs true]
        else wsP (indentStr indent) ++ [.opn name ws attrs false, .cls name ws]
      else match inlineChild? kids.visible with
        | some c =>
          wsP (indentStr indent) ++ [.opn name ws attrs false,
            textP (!cfg.noesc.contains name && !c.2) c.1, .cls name ws]
        | none =>
          wsP (indentStr indent) ++ [.opn name ws attrs false] ++ (if ws then wsP eol else [])
            ++ kids.piecesKids cfg (indent + 1) eol true ws (!cfg.noesc.contains name)
            ++ (if ws then wsP (eol ++ indentStr indent) else []) ++ [.cls name ws]
    | _, _, _ => []
  def Nodes.piecesKids (cfg : Cfg) : Nodes → Nat → Str → Bool → Bool → Bool → List Piece
    | .nil, _, _, _, _, _ => []
    | .cons h t, indent, eol, first, prevWs, esc =>
      match h with
      | .mnode _ => t.piecesKids cfg indent eol first prevWs esc
      | .dep .. => t.piecesKids cfg indent eol first prevWs esc
      | .tag _ ws _ _ =>
        let pc := prevWs || ws
        (if !first && pc then wsP eol else [])
          ++ (if pc then h.pieces cfg indent eol else h.pieces cfg 0 [])
          ++ t.piecesKids cfg indent eol false ws esc
      | .text s =>
        (if !first && prevWs then wsP eol else []) ++ (if prevWs then wsP (indentStr indent) else [])
          ++ [textP esc s] ++ t.piecesKids cfg indent eol false false esc
      | .html s =>
        (if !first && prevWs then wsP eol else []) ++ (if prevWs then wsP (indentStr indent) else [])
          ++ [.raw s] ++ t.piecesKids cfg indent eol false false esc
      | .robj s =>
        (if !first && prevWs then wsP eol else []) ++ (if prevWs then wsP (indentStr indent) else [])
          ++ [.raw s] ++ t.piecesKids cfg indent eol false false esc
      | .tobjL rh _ =>
        (if !first && prevWs then wsP eol else []) ++ (if prevWs then wsP (indentStr indent) else [])
          ++ [.raw (rh.getD [])] ++ t.piecesKids cfg indent eol false false esc
      | .tobj1 rh _ =>
        (if !first && prevWs then wsP eol else []) ++ (if prevWs then wsP (indentStr indent) else [])
          ++ [.raw (rh.getD [])] ++ t.piecesKids cfg indent eol false false esc
end

end HtmlVerif
