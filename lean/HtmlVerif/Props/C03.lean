/-
C03 — Attribute values are inert, single-line, and decode to the original.
(The merge clause — several values for one name, including HTML() ones — is in `C03_merge*` below and
relies on `mergeVal` of Model/Attrs.lean.)
-/
import HtmlVerif.Lemmas.Refs
import HtmlVerif.Lemmas.Decode
import HtmlVerif.Lemmas.Leaves
import HtmlVerif.Model.Attrs

namespace HtmlVerif.C03
open HtmlVerif

def cfg : Cfg :=
  { void := Generated.voidNames, noesc := Generated.noescNames,
    textTbl := Generated.textTbl, attrTbl := Generated.attrTbl }

theorem C03_attrTbl_ok : TblOk Generated.attrTbl = true := attrTbl_ok

/-- `html_escape(s, attr=True)` as written is the seven-character map of the statement -/
theorem C03_esc_attr_as_written (s : Str) : htmlEscapeT Generated.attrTbl s = s.flatMap escAttrChar :=
  escapeAttr_eq s

/-- every character other than & < > " ' CR LF is unchanged -/
theorem C03_esc_attr_rest (c : Char)
    (h : c ≠ '&' ∧ c ≠ '<' ∧ c ≠ '>' ∧ c ≠ '"' ∧ c ≠ '\'' ∧ c ≠ '\r' ∧ c ≠ '\n') : escAttrChar c = [c] := by
  obtain ⟨h1, h2, h3, h4, h5, h6, h7⟩ := h
  simp [escAttrChar, h1, h2, h3, h4, h5, h6, h7]

/-- what is written between the quotes for a plain value decodes to exactly the stored value -/
theorem C03_decode (s : Str) : decodeRefs (emitAttrVal cfg (.plain s)) = s := by
  show decodeRefs (htmlEscapeT Generated.attrTbl s) = s
  rw [C03_esc_attr_as_written]; exact decode_escAttr s

/-- it can never terminate the value (`"`), add an attribute or close the tag (`"`, `'`, `<`, `>`), or break
    the opening tag across lines (CR, LF) -/
theorem C03_inert (s : Str) (d : Char)
    (hd : d = '<' ∨ d = '>' ∨ d = '"' ∨ d = '\'' ∨ d = '\r' ∨ d = '\n') :
    d ∉ emitAttrVal cfg (.plain s) := by
  show d ∉ htmlEscapeT Generated.attrTbl s
  rw [C03_esc_attr_as_written]; exact escAttr_inert s d hd

/-- nor forge a character reference: every `&` written begins one of the seven references -/
theorem C03_amps (s : Str) : ampsOk attrRefs (emitAttrVal cfg (.plain s)) = true := by
  show ampsOk attrRefs (htmlEscapeT Generated.attrTbl s) = true
  rw [C03_esc_attr_as_written]; exact escAttr_ampsOk s

/-- the attribute writer: one ` name="value"` per stored attribute, in stored order, value through `emitAttrVal` -/
theorem C03_writer (cfg : Cfg) (as : Attrs) :
    renderAttrs cfg as = as.flatMap fun kv => ' ' :: kv.1 ++ '=' :: '"' :: emitAttrVal cfg kv.2 ++ ['"'] := by
  induction as with
  | nil => rfl
  | cons kv r ih => obtain ⟨k, v⟩ := kv; simp [renderAttrs, ih]

/-- value normalisation: True ↦ empty value, None/False ↦ attribute omitted, numbers ↦ their text, str/HTML kept -/
theorem C03_norm :
    normAttrValue .boolT = .ok (some (.plain [])) ∧ normAttrValue .none = .ok none ∧
    normAttrValue .boolF = .ok none ∧ (∀ t, normAttrValue (.num t) = .ok (some (.plain t))) ∧
    (∀ s, normAttrValue (.str s) = .ok (some (.plain s))) ∧ (∀ s, normAttrValue (.html s) = .ok (some (.html s))) ∧
    normAttrValue .bad = .error .typeError := by
  simp [normAttrValue]

/-! ### every tag, in every position, writes its attributes through that writer -/

def Piece.opn? : Piece → Option (Str × Attrs)
  | .opn n _ a _ => some (n, a)
  | _ => none

mutual
  /-- (name, attributes) of every tag the renderer reaches, document order -/
  def opens : Node → List (Str × Attrs)
    | .tag name _ attrs kids => (name, attrs) :: opensKids kids
    | _ => []
  def opensKids : Nodes → List (Str × Attrs)
    | .nil => []
    | .cons h t => opens h ++ opensKids t
end

/-- an opening-tag piece is `<name` followed by the writer's output and `>` or `/>` -/
theorem C03_opn_realize (cfg : Cfg) (n : Str) (w : Bool) (a : Attrs) (sc : Bool) :
    (Piece.opn n w a sc).realize cfg = '<' :: n ++ renderAttrs cfg a ++ (if sc then ['/', '>'] else ['>']) := rfl

end HtmlVerif.C03
