"""C13 — Serialised dependencies round-trip through HTML text."""
from __future__ import annotations

import itertools
import json
import re
from html.parser import HTMLParser

import core
import gen
from wire import Toks, es, eopt, elist, enode, p_str

PID = "C13"
MANIFEST = dict(
    text="Lean theorems (all inputs, no partial obligations among the JSON/scan ones): json.dumps string escaping with ensure_ascii is inverted "
         "by the JSON string scanner for every string over all Unicode scalar values (C13_json_str_roundtrip, per character incl. \\uXXXX and "
         "surrogate pairs); the indenting printer and the whitespace-skipping parser are inverse on the whole record fragment (objects, arrays, "
         "strings, true/false/null, any nesting, indent None or n — C13_json_val_roundtrip, mutual induction, generic in the string-body encoder); "
         "end-tag neutralisation only rewrites string bodies and is transparent to parsing (C13_neutralise_transparent/_structure); after it no "
         "'</' at all, hence no '</script' in any letter case, occurs inside the element (C13_no_end_tag_inside, C13_no_lt_slash); the OPEN marker "
         "cannot occur inside dumped JSON (C13_no_open_inside, via a matcher for the window =\"a); the element is OPEN+body+CLOSE under the real "
         "renderer tables (C13_element_render); the regex scan modelled as leftmost-OPEN/first-CLOSE removes exactly the serialised elements of "
         "t0+ser d1+t1+…+ser dn+tn and yields their bodies in order when the text chunks contain no OPEN (C13_scan_spec); extraction dedups by exact "
         "text keeping first occurrences and recovers every field, head as identical markup (C13_extract_spec, C13_recover_equal, "
         "C13_dedup_keep_first); render() replaces only the first placeholder occurrence and leaves the rest untouched (C13_replace_first) with "
         "listing + per-dependency tags (C13_inserted); JSON mode fed back recovers the dependencies and the invisible-mode text "
         "(C13_json_mode_equiv); json.dumps output is printable ASCII (C13_json_str_ascii); the pinned exact-lower-case replacement is refuted "
         "by the witness head='</SCRIPT>' (C13_pinned_neutralisation_is_false). C13_same_as_document_partial and the per-dependency markup are "
         "stated over an abstract as_html_tags / hoisted node list (models in other branches). Tie: exact equality of serialised text, extraction result, HTMLTextDocument.render() and str(x) in JSON mode against the real "
         "code; Python oracles json.loads, the regex read from the source, html.parser, HTMLDocument's own head insertion.",
    design="DESIGN.md §6 C13, §7 F-C13",
    note="Model follows the property where it dictates: every '</' is neutralised (the pinned code neutralised only the exact lower-case "
         "'</script>': F-C13, fixes/C13-neutralise-all-end-tags.patch). Modelled, not verified: json.dumps/json.loads outside the fragment "
         "(numbers, floats, non-string dict values), the regex engine (lazy (?:.|\\r|\\n)*? as first-CLOSE search; compared with re on every case), "
         "packaging.Version re-parsing of the serialised version string, dict key order of user-supplied source dicts, as_html_tags (run-time "
         "parameter of the render op), collect/resolve of dependencies (JSON-mode cases use pairwise distinct names).",
    technique="Lean 4 proof (character-level case analysis with omega, mutual structural induction printer/parser, finite-state matcher invariant, "
              "list induction for scan/dedup) + differential correspondence",
)
PROP_FILES = ["HtmlVerif/Props/C13.lean", "HtmlVerif/Props/ConstsJson.lean", "HtmlVerif/Props/SrcNeutralise.lean", "HtmlVerif/Props/SrcC13.lean"]

OPEN = '<script type="application/json" data-html-dependency="">'
CLOSE = "</script>"
VERSIONS = ["1", "1.0", "2.3.4", "0.0.1", "10.20", "1.0a1", "3.0.post1"]


# ------------------------------------------------------------------ generators
def case_variants(word: str):
    """all letter-case variants of a word (letters only vary)"""
    opts = [(c.lower(), c.upper()) if c.isalpha() else (c,) for c in word]
    for tup in itertools.product(*opts):
        yield "".join(tup)


END_TAGS = ["</" + v + tail for v in case_variants("script") for tail in (">", " ", "\t", "\n", "/", " >", "")]
HOSTILE = [
    "", "a", '"', "\\", '\\"', "\\\\", "\n", "\r\n", "\t", "\b\f", "\x00", "\x1f", "\x7f", "\x80", "é", "\u2028", "\uffff", "😀", "\U0010ffff",
    "</", "<\\/", "\\/", "/", "<", "<<//", "<!--", "-->", "<!--<script>", "]]>", "<script>", "<SCRIPT>", "</style>", "</div>", "</ script>",
    OPEN, OPEN + "x" + CLOSE, CLOSE, '="a', 'x="application/json"', "\\u0041", "\\ud83d", "{\"name\": 1}", "[]", "null", " ", "  x  ", "=", '="', "a=\"\">",
]


def rand_field(rng, maxlen=10) -> str:
    r = rng.random()
    if r < 0.22:
        return rng.choice(HOSTILE)
    if r < 0.40:
        return rng.choice(END_TAGS)
    if r < 0.50:
        return rng.choice(HOSTILE) + rng.choice(END_TAGS) + rng.choice(HOSTILE)
    out = []
    for _ in range(rng.randint(0, maxlen)):
        q = rng.random()
        if q < 0.30:
            out.append(rng.choice('"\\/<>=\n\r\t !-'))
        elif q < 0.40:
            out.append(rng.choice(END_TAGS))
        elif q < 0.70:
            out.append(chr(rng.randint(0x20, 0x7E)))
        elif q < 0.78:
            out.append(chr(rng.randint(0, 0x1F)))
        elif q < 0.88:
            out.append(chr(rng.choice([0x7F, 0x80, 0xA0, 0xFF, 0x100, 0x7FF, 0x800, 0xD7FF, 0xE000, 0xFFFD, 0xFFFF]
                                      + [rng.randint(0x80, 0xD7FF)])))
        else:
            out.append(chr(rng.choice([0x10000, 0x10FFFF, 0x1F600, rng.randint(0x10000, 0x10FFFF)])))
    return "".join(out)


def rand_dict(rng, req, hostile_keys: bool):
    d = [(k, rand_field(rng, 6)) for k in req]
    for _ in range(rng.choice([0, 0, 1, 2])):
        k = rand_field(rng, 4) if (hostile_keys and rng.random() < 0.4) else rng.choice(["type", "async", "media", "data-x", "integrity"])
        if k not in [x[0] for x in d]:
            d.append((k, rand_field(rng, 6)))
    return d


def rand_info(rng, *, name=None, tame=False):
    """a dependency record term; `tame`: renderable by as_html_tags (no package, plain keys)"""
    src_kind = rng.choice(["none", "none", "href", "subdir"] + ([] if tame else ["pkg"]))
    source = None
    if src_kind == "href":
        source = ("href", rand_field(rng, 6))
    elif src_kind == "subdir":
        source = ("subdir", None, rand_field(rng, 6).replace("\x00", "0") if tame else rand_field(rng, 6), "")   # realpath rejects NUL
    elif src_kind == "pkg":
        source = ("subdir", "htmltools", rand_field(rng, 6), "")
    script = [rand_dict(rng, ["src"], not tame) for _ in range(rng.choice([0, 0, 1, 2]))]
    stylesheet = []
    for _ in range(rng.choice([0, 0, 1, 2])):
        d = rand_dict(rng, ["href"], not tame)
        if "rel" not in [k for k, _ in d]:
            d.append(("rel", "stylesheet"))          # what the constructor adds
        stylesheet.append(d)
    metas = [rand_dict(rng, ["name", "content"], not tame) for _ in range(rng.choice([0, 0, 1]))]
    return dict(name=name if name is not None else (rand_field(rng, 5) or "n"), version=rng.choice(VERSIONS), vrank=0, source=source,
                script=script, stylesheet=stylesheet, metas=metas, all_files=rng.random() < 0.3)


def rand_sdep(rng, **kw):
    head = None if rng.random() < 0.3 else rand_field(rng, 12)
    return (rand_info(rng, **kw), head)


def plain_sdep(name="n", version="1", head=None):
    return (dict(name=name, version=version, vrank=0, source=None, script=[], stylesheet=[], metas=[], all_files=False), head)


def rand_chunk(rng) -> str:
    """text around serialised copies: must not contain the OPEN marker (the property's guard)"""
    parts = []
    for _ in range(rng.randint(0, 4)):
        r = rng.random()
        if r < 0.3:
            parts.append(rng.choice(["<p>x</p>", "\n", "  ", "<script>1</script>", CLOSE, "<script type=\"application/json\">{}</script>",
                                     OPEN[:-1], OPEN[1:], "<!-- c -->", "é😀", "</SCRIPT>", "<head>", "PH"]))
        else:
            parts.append(gen.rand_text(rng, 8))
    s = "".join(parts)
    return s.replace(OPEN, "(open)")


def e_ind(i):
    return "N" if i is None else f"I {i}"


def e_sdep(sd):
    from ops_json import e_sdep as f
    return f(sd)


def ser_line(ind, sd) -> str:
    return f"ser {e_ind(ind)} {e_sdep(sd)}"


def extract_line(t0, items) -> str:
    return "extract " + es(t0) + " " + elist([f"{e_ind(i)} {e_sdep(sd)} {es(t)}" for i, sd, t in items])


# ------------------------------------------------------------------ independent Python oracles
class _Events(HTMLParser):
    def __init__(self):
        super().__init__(convert_charrefs=True)
        self.ev = []

    def handle_starttag(self, tag, attrs):
        self.ev.append(("start", tag, tuple(attrs)))

    def handle_endtag(self, tag):
        self.ev.append(("end", tag))

    def handle_data(self, data):
        if self.ev and self.ev[-1][0] == "data":
            self.ev[-1] = ("data", self.ev[-1][1] + data)
        else:
            self.ev.append(("data", data))

    def handle_comment(self, data):
        self.ev.append(("comment", data))


def record_of(sd):
    """the record the element must carry, built from the term (not from the library)"""
    info, head = sd
    src = info["source"]
    if src is None:
        source = None
    elif src[0] == "href":
        source = {"href": src[1]}
    else:
        source = {"subdir": src[2]}
        if src[1] is not None:
            source["package"] = src[1]
    return {"name": info["name"], "version": info["version"], "source": source,
            "script": [dict(x) for x in info["script"]], "stylesheet": [dict(x) for x in info["stylesheet"]],
            "meta": [dict(x) for x in info["metas"]], "all_files": info["all_files"], "head": head}


def py_snippet(sd, ind) -> str:
    info, head = sd
    rec = record_of(sd)
    args = [repr(info["name"]), repr(info["version"])]
    for k, key in (("source", "source"), ("script", "script"), ("stylesheet", "stylesheet"), ("meta", "meta")):
        if rec[key]:
            args.append(f"{k}={rec[key]!r}")
    if info["all_files"]:
        args.append("all_files=True")
    if head is not None:
        args.append(f"head={head!r}")
    return (f"from htmltools import HTMLDependency\n"
            f"print(HTMLDependency({', '.join(args)}).serialize_to_script_json({'' if ind is None else ind}).get_html_string())")


def element_oracles(ck, line, sd, ind, impl_out, pattern):
    """json.loads / the real regex / html.parser on one serialised element; returns nothing, records violations"""
    if not impl_out.startswith("ok "):
        return
    out = p_str(Toks(impl_out[3:]))
    py = py_snippet(sd, ind)
    m = re.fullmatch(pattern, out)
    if m is None or re.findall(pattern, out) != [m.group(1)] or not out.startswith(OPEN) or not out.endswith(CLOSE):
        ck.py_violation(line, impl_out, "the serialised element is not OPEN + body + CLOSE for the extraction regex of the source", py)
        return
    body = out[len(OPEN):-len(CLOSE)]
    if m.group(1) != body:
        ck.py_violation(line, impl_out, "the extraction regex stops before the element's own closing tag: "
                        f"matched body {m.group(1)[:80]!r}", py)
        return
    try:
        got = json.loads(body)
    except Exception as e:  # noqa: BLE001
        ck.py_violation(line, impl_out, f"json.loads rejects the element body: {e}", py)
        return
    if got != record_of(sd):
        ck.py_violation(line, impl_out, f"json.loads(body) differs from the dependency record: {got!r}", py)
        return
    low = body.lower()
    if "</script" in low:
        k = low.index("</script")
        ck.py_violation(line, impl_out, f"end-tag-like {body[k:k + 9]!r} occurs inside the serialised element before its own closing tag "
                        f"(offset {k} of the body)", py)
        return
    p = _Events()
    p.feed(out)
    p.close()
    want = [("start", "script", (("type", "application/json"), ("data-html-dependency", ""))), ("data", body), ("end", "script")]
    if p.ev != want:
        ck.py_violation(line, impl_out, f"html.parser does not see one script element holding the body: events {p.ev[:4]!r}", py)


def decode_ser_line(line: str):
    from ops_json import p_indent, p_sdep
    t = Toks(line)
    t.next()
    ind = p_indent(t)
    return ind, p_sdep(t)


def shrink(f):
    """attach a Python reproduction and the failing clause to a failing `ser` case"""
    if f.line.startswith("ser ") and not f.py:
        ind, sd = decode_ser_line(f.line)
        f.py = py_snippet(sd, ind)
        why = "the body does not give the record back, or the OPEN marker occurs inside it"
        if f.impl.startswith("ok "):
            out = p_str(Toks(f.impl[3:]))
            body = out[len(OPEN):-len(CLOSE)] if out.startswith(OPEN) and out.endswith(CLOSE) else out
            k = body.lower().find("</script")
            if k >= 0:
                why = (f"end-tag-like {body[k:k + 9]!r} occurs inside the serialised element before its own closing tag "
                       f"(offset {k} of the body {body[:200]!r})")
        f.detail = "executable statement of C13 (C13_no_end_tag_inside / C13_no_open_inside / C13_recover_body) is false on the implementation's element: " + why
    return f


def replay(body: dict) -> int:
    """./check replay <file>: re-run the recorded input on the implementation and the model"""
    import ops
    line = body.get("line") or ""
    print("property :", body.get("property"), "| kind:", body.get("kind"))
    if body.get("python"):
        print("python   :\n" + body["python"])
    if body.get("detail"):
        print("detail   :", body["detail"])
    op = line.split(" ", 1)[0]
    if op not in ops.IMPL:
        print("recorded :", line[:400] or body)
        print("(no wire line to re-run: Python-side statement or broken obligation)")
        return 1
    impl = ops.run_line(line)
    drv = core.Driver()
    model, holds = drv.run([line, f"holds {PID} {line} | {impl}"])

    def show(ans):
        if ans.startswith("ok ") and op in ("ser", "sern", "jsonmode"):
            return repr(p_str(Toks(ans[3:])))
        return ans[:600]
    print("impl     :", show(impl))
    print("model    :", show(model))
    print("statement holds on impl:", holds, "| impl == model:", impl == model)
    return 0 if (holds == "T" and impl == model) else 1


# ------------------------------------------------------------------ the run
def unterminated_oracle(ck, rng) -> int:
    """surrounding text may quote or truncate the opening tag of a serialised element: an opening tag that is never closed is
    ordinary text — the copies before it are recovered and removed, every other character stays exactly once, and only the
    first placeholder is replaced"""
    from htmltools import HTMLDependency, HTMLTextDocument
    n = 0
    d1 = HTMLDependency("u1", "1.0", script={"src": "a.js"}, head="<!-- h -->")
    d2 = HTMLDependency("u2", "2.0", meta={"name": "n", "content": "</script>"})
    s1, s2 = str(d1.serialize_to_script_json()), str(d2.serialize_to_script_json(indent=2))
    tails = ["", "x", "{\"name\": 1", "</SCRIPT", "<script>", "é\n", OPEN[:-1], OPEN + "again"]
    fronts = ["", "a", "<p>PH</p>", "line\nPH ", "é"]
    for front in fronts:
        for mid in ["", "m", " PH "]:
            for tail in tails:
                for copies, want_names in (([], []), ([s1], ["u1"]), ([s1, s2], ["u1", "u2"]), ([s1, s1], ["u1"])):
                    n += 1
                    ck.holds_checked += 1
                    text = front + mid.join(copies) + mid + OPEN + tail
                    want_html = front + mid.join([""] * len(copies)) + mid + OPEN + tail
                    try:
                        got: list = []
                        doc = HTMLTextDocument(text, deps=got, deps_replace_pattern="PH")
                        names = [d.name for d in got]
                        kept = doc._html
                        r = doc.render()["html"]
                    except Exception as e:  # noqa: BLE001
                        ck.py_violation("textdoc-unterminated " + es(text), f"raised {type(e).__name__}: {e}", "a text with an unterminated opening tag raised", py=repr(text)[:300])
                        continue
                    ok_render = r.count(OPEN + tail) == 1 and (("PH" not in want_html) or r.count("PH") == want_html.count("PH") - 1)
                    if names != want_names or kept != want_html or not ok_render:
                        ck.py_violation("textdoc-unterminated " + es(text), kept[:400],
                                        f"text with {len(copies)} serialised copies followed by an opening tag that is never closed: kept text {kept!r} (expected {want_html!r}), "
                                        f"recovered {names} (expected {want_names}); rendered: {r[:200]!r}",
                                        py=f"HTMLTextDocument({text[:200]!r}..., deps=[], deps_replace_pattern='PH')")
    ck.exhaustive_scopes.append({"scope": "an opening tag that is never closed after 0-2 serialised copies: 5 fronts x 3 separators x 8 tails x 4 copy lists", "n": n, "exhaustive": True})
    return n


def reparse_oracle(ck) -> int:
    """a text is parsed, the recovered dependency objects are edited in place through the caller's own list, and the same
    text is parsed again (also after a different text): every parse recovers dependencies equal to the serialised ones"""
    from htmltools import HTML, HTMLDependency, HTMLTextDocument, tags
    n = 0

    def snap(ds):
        return [(d.name, str(d.version), repr(d.source), repr(d.script), repr(d.stylesheet), repr(d.meta), d.all_files,
                 None if d.head is None else d.head.get_html_string()) for d in ds]

    sets = [
        [HTMLDependency("m1", "1.0", source={"subdir": "/s"}, script=[{"src": "a.js"}, {"src": "b.js", "defer": ""}], stylesheet={"href": "a.css"},
                        meta={"name": "n", "content": "c"}, head=tags.title("t"), all_files=True),
         HTMLDependency("m2", "2.0", source={"href": "https://x/y"}, script={"src": "c.js"}, head=HTML("<!-- h -->"))],
        [HTMLDependency("solo", "0.1", meta=[{"name": "a", "content": "1"}, {"name": "b", "content": "2"}])],
    ]
    for k, deps_in in enumerate(sets):
        text = "<head>PH</head><body>x" + "\n".join(str(d.serialize_to_script_json(indent=k)) for d in deps_in) + "y</body>"
        other = "<p>PH</p>" + str(deps_in[0].serialize_to_script_json())
        want = snap(deps_in)

        def parse(t=text):
            got: list = []
            r = HTMLTextDocument(t, deps=got, deps_replace_pattern="PH").render()
            return got, r["html"], [(d.name, str(d.version)) for d in r["dependencies"]]
        hist = []
        try:
            got1, html1, names1 = parse()
            hist.append("parse")
            s1 = snap(got1)
            for d in got1:                       # in-place edits of everything the recovered objects hold
                d.script.append({"src": "added.js"})
                d.stylesheet.clear()
                d.meta.append({"name": "added", "content": "z"})
                if d.source is not None:
                    d.source["subdir" if "subdir" in d.source else "href"] = "/changed"
                for it in d.script:
                    it["data-x"] = "1"
            hist.append("edit the recovered objects in place")
            parse(other)
            hist.append("parse another text")
            got2, html2, names2 = parse()
            hist.append("parse the first text again")
            s2 = snap(got2)
        except Exception as e:  # noqa: BLE001
            ck.py_violation(f"reparse set {k}", f"raised {type(e).__name__}: {e}", f"history {hist} raised", py=f"set {k}: " + "; ".join(hist))
            continue
        n += 1
        ck.holds_checked += 1
        if s1 != want or s2 != want or html2 != html1 or names2 != names1:
            ck.py_violation(f"reparse set {k}", repr(s2)[:400],
                            "the same text parsed again after the first parse's recovered dependencies were edited in place recovers "
                            f"{s2!r}; the serialised dependencies are {want!r}" + ("" if html2 == html1 else "; the rendered text differs too"),
                            py="ds = []; HTMLTextDocument(text, deps=ds, deps_replace_pattern='PH'); ds[0].script.append({'src': 'added.js'}); "
                               "ds2 = []; HTMLTextDocument(text, deps=ds2, deps_replace_pattern='PH'); ds2[0].script")
    ck.exhaustive_scopes.append({"scope": "parse, edit the recovered dependencies in place, parse another text, parse again: 2 dependency sets", "n": n, "exhaustive": True})
    return n


def run(tier: str) -> int:
    import htmltools
    from htmltools import HTMLDocument, HTMLTextDocument, Tag, TagList
    import ops_json
    from adapters import canon

    ck = core.Check(PID, tier, PROP_FILES)
    ck.prepare()
    rng = ck.rng
    ck.rule = ("one case per wire line: (indent, dependency record) for the serialised element; (text chunks, serialised copies) for extraction; "
               "(html, placeholder, given dependencies) for render; tree for JSON mode; string for json.dumps. Non-trivial = some field contains a "
               "quote, backslash, control or non-ASCII character or '<' / an extraction with >= 2 copies / a placeholder occurring != 1 times; "
               "distinct by wire line")
    pattern = ops_json.pattern()
    if pattern != OPEN + r"((?:.|\r|\n)*?)" + CLOSE:
        # the marker literals of Model/TextDoc.lean no longer describe the source: every scan theorem is about another pattern
        ck.failures.append(core.Failure("correspondence", line="pattern", impl=pattern, model=OPEN + r"((?:.|\r|\n)*?)" + CLOSE))

    hostile = set('"\\<\n\r\t') | {chr(i) for i in range(0x20)}

    def nontrivial_str(s: str) -> bool:
        return any(c in hostile or ord(c) > 0x7E for c in s)

    # ---------------- 1. json.dumps on strings
    lines = []
    if tier == "thorough":
        cps = [c for c in range(0x110000) if not (0xD800 <= c <= 0xDFFF)]
        ck.exhaustive_scopes.append({"scope": "json.dumps(chr(c)) for every Unicode scalar value", "n": len(cps), "exhaustive": True})
    else:
        cps = [c for c in list(range(0x3000)) + [0xD7FF, 0xE000, 0xFFFF, 0x10000, 0x10FFFF] + [rng.randrange(0x3000, 0x110000) for _ in range(6000)]
               if not (0xD800 <= c <= 0xDFFF)]
        ck.exhaustive_scopes.append({"scope": "json.dumps(chr(c)) for every code point < U+3000 (+6000 sampled above, + boundaries)", "n": 0x3000, "exhaustive": True})
    for c in cps:
        lines.append("jstr " + format(c, "x"))
    alpha = '"\\/<u\n'
    L = 5 if tier == "thorough" else 4
    n_short = 0
    for k in range(0, L + 1):
        for tup in itertools.product(alpha, repeat=k):
            lines.append("jstr " + es("".join(tup)))
            n_short += 1
    ck.exhaustive_scopes.append({"scope": f"json.dumps on all strings of length <= {L} over {{\" \\ / < u LF}}", "n": n_short, "exhaustive": True})
    for s in HOSTILE + END_TAGS:
        lines.append("jstr " + es(s))
    for _ in range(ck.budget(3000, 60000)):
        lines.append("jstr " + es(rand_field(rng, 30)))
    impl = core.impl_many(lines)
    for l, im in zip(lines, impl):
        ck.add(l, im, nontrivial=True, tag="jstr")

    # ---------------- 2. the serialised element
    ser_cases = []          # (indent, sdep)
    # corpus: the witnesses of F-C13 first, so that a regression is reported on the smallest input
    for head in ["</SCRIPT>", "</script ", "</Script\n>", "</script>", "</scripT/", "<!--</sCrIpT>-->", "x</script\t", OPEN, CLOSE + OPEN]:
        ser_cases.append((None, plain_sdep(head=head)))
    ser_cases.append((None, (dict(name="</SCRIPT>", version="1", vrank=0, source=("href", "</Script >"), script=[[("src", "</SCRIPT>")]],
                                  stylesheet=[[("href", "</scrIPT>"), ("rel", "stylesheet")]], metas=[[("name", "</SCRIPt/"), ("content", "</script")]],
                                  all_files=True), None)))
    ser_cases.append((2, (dict(name="é😀", version="2.3.4", vrank=0, source=("subdir", "htmltools", "lib\\x", ""), script=[[("src", 'a".js'), ("</script>", "k")]],
                               stylesheet=[], metas=[], all_files=False), "\x00\x1f\x7f\u2028")))
    n_corpus = len(ser_cases)
    # exhaustive small scope: head strings made of <= 3 (quick) / 4 (thorough) tokens of an adversarial token alphabet, x indent
    TOK = ["<", "/", "</script>", "</SCRIPT", "</ScRiPt ", "\\", '"', "é", "\n", "<!--", OPEN]
    LT = 4 if tier == "thorough" else 3
    n_tok = 0
    for k in range(0, LT + 1):
        for tup in itertools.product(TOK, repeat=k):
            for ind in ((None, 2) if k <= 2 else (None,)):
                ser_cases.append((ind, plain_sdep(head="".join(tup))))
            n_tok += 1
    ck.exhaustive_scopes.append({"scope": f"head = every sequence of <= {LT} tokens over {TOK!r} (x indent None/2 up to length 2)", "n": n_tok, "exhaustive": True})
    # every letter-case variant x tail, in every string field, x every indent
    n_var = 0
    for et in END_TAGS:
        for ind in (None, 0, 2, 4):
            ser_cases.append((ind, plain_sdep(head="a" + et + "b")))
        ser_cases.append((None, (dict(name=et, version="1", vrank=0, source=("href", et), script=[[("src", et), (et, et)]],
                                      stylesheet=[[("href", et), ("rel", "stylesheet")]], metas=[[("name", et), ("content", et)]], all_files=False), et)))
        n_var += 1
    ck.exhaustive_scopes.append({"scope": "'</script' in all 64 letter-case variants x 7 tails (> space tab LF / ' >' none), in head x 4 indents and in every field",
                                 "n": n_var, "exhaustive": True})
    for _ in range(ck.budget(2500, 50000)):
        ser_cases.append((rng.choice([None, None, 0, 2, 4, 1, 7]), rand_sdep(rng)))
    lines = [ser_line(i, sd) for i, sd in ser_cases]
    impl = core.impl_many(lines)
    for (i, sd), l, im in zip(ser_cases, lines, impl):
        rec = json.dumps(record_of(sd), ensure_ascii=False)
        ck.add(l, im, nontrivial=nontrivial_str(rec), tag="ser")
    n_or = 0
    for idx, ((i, sd), l, im) in enumerate(zip(ser_cases, lines, impl)):
        if idx < n_corpus + 3000 or idx % 7 == 0:
            element_oracles(ck, l, sd, i, im, pattern)
            n_or += 1
    ck.extra_cov["python_oracle_elements"] = n_or
    # head given as a tag tree: rendered by TagList(head).get_html_string()
    lines = []
    for _ in range(ck.budget(400, 8000)):
        info = rand_info(rng)
        kids = [gen.rand_node(rng, rng.randint(0, 3), leaves=("text", "html", "html", "meta")) for _ in range(rng.randint(0, 3))]
        lines.append(f"sern {e_ind(rng.choice([None, 2]))} {enode(('dep', info, rng.random() < 0.85, kids))}")
    impl = core.impl_many(lines)
    for l, im in zip(lines, impl):
        ck.add(l, im, nontrivial=True, tag="sern")

    # ---------------- 3. extraction
    lines = []
    pool = [(None, plain_sdep("a", "1", "</SCRIPT>")), (2, plain_sdep("a", "1", "</SCRIPT>")), (None, plain_sdep("b", "2", None)),
            (None, plain_sdep("a", "1", "</SCRIPT>"))]
    n_ex = 0
    MAXC = 4 if tier == "thorough" else 3
    for k in range(0, MAXC + 1):
        for picks in itertools.product(range(3), repeat=k):
            for chunks in (("", "") , ("x", "\n")):
                items = [(pool[p][0], pool[p][1], chunks[1] if j < k - 1 else chunks[0]) for j, p in enumerate(picks)]
                lines.append(extract_line(chunks[0], items))
            n_ex += 1
    ck.exhaustive_scopes.append({"scope": f"extraction of every sequence of <= {MAXC} copies over 3 (dependency, indent) choices (repeats included) x 2 chunk patterns",
                                 "n": n_ex, "exhaustive": True})
    n_multi = 0
    for _ in range(ck.budget(1500, 30000)):
        base = [(rng.choice([None, 0, 2, 4]), rand_sdep(rng)) for _ in range(rng.randint(1, 3))]
        k = rng.randint(0, 4)
        items = []
        for _ in range(k):
            i, sd = rng.choice(base)
            if rng.random() < 0.15:
                i = rng.choice([None, 0, 2, 4])
            items.append((i, sd, rand_chunk(rng)))
        lines.append(extract_line(rand_chunk(rng), items))
        n_multi += k >= 2
    impl = core.impl_many(lines)
    for l, im in zip(lines, impl):
        ck.add(l, im, nontrivial=l.count(" N ") + l.count(" I ") >= 2, tag="extract")
    # the scan on arbitrary text (unterminated OPEN, CLOSE before OPEN, nested OPEN, other letter cases): model vs the real regex
    lines = []
    STOK = [OPEN, CLOSE, "x", "\n", "</SCRIPT>"]
    LS = 6 if tier == "thorough" else 5
    n_scan = 0
    for k in range(0, LS + 1):
        for tup in itertools.product(STOK, repeat=k):
            lines.append("scan_raw " + es("".join(tup)))
            n_scan += 1
    ck.exhaustive_scopes.append({"scope": f"regex scan of every sequence of <= {LS} tokens over {{OPEN, CLOSE, x, LF, </SCRIPT>}}", "n": n_scan, "exhaustive": True})
    for _ in range(ck.budget(1500, 30000)):
        parts = [rng.choice([OPEN, OPEN, CLOSE, CLOSE, OPEN[:-1], OPEN[1:], OPEN.upper(), "</script", "<script>", "\r", "\n", "{}", "é"]) if rng.random() < 0.6
                 else gen.rand_text(rng, 6) for _ in range(rng.randint(0, 9))]
        lines.append("scan_raw " + es("".join(parts)))
    impl = core.impl_many(lines)
    for l, im in zip(lines, impl):
        ck.add(l, im, nontrivial=True, tag="scan_raw")

    # ---------------- 4. HTMLTextDocument.render()
    lines = []
    PHS = ["PH", "<meta data-foo=\"\">", "{{deps}}", "x", "", "é", "aa"]
    n_ph = {0: 0, 1: 0, 2: 0}
    for _ in range(ck.budget(900, 15000)):
        ph = rng.choice(PHS)
        occ = rng.choice([0, 1, 1, 2, 3])
        given = None if rng.random() < 0.25 else [rand_sdep(rng, tame=True) for _ in range(rng.choice([0, 1, 1, 2]))]
        embedded = [(rng.choice([None, 2]), rand_sdep(rng, tame=True)) for _ in range(rng.choice([0, 0, 1, 2]))]
        if embedded and rng.random() < 0.3:
            embedded.append(embedded[0])
        parts = []
        slots = ["ph"] * occ + [("dep", e) for e in embedded]
        rng.shuffle(slots)
        for s in slots:
            parts.append(rand_chunk(rng).replace(ph, "_") if ph else rand_chunk(rng))
            parts.append(ph if s == "ph" else ops_json.realize_sdep(s[1][1]).serialize_to_script_json(s[1][0]).get_html_string())
        parts.append(rand_chunk(rng).replace(ph, "_") if ph else rand_chunk(rng))
        html = "".join(parts)
        r = rng.random()
        if r < 0.06:
            ph_arg, given = None, None          # TypeError at render
        elif r < 0.10:
            ph_arg, given = None, (given or [])  # ValueError in the constructor
        else:
            ph_arg = ph
        # run-time parameter: as_html_tags of the final dependency list
        try:
            doc = HTMLTextDocument(html, None if given is None else [ops_json.realize_sdep(d) for d in given], ph_arg)
            table = ops_json.tags_table(doc._deps)
        except Exception:  # noqa: BLE001
            table = "[ ]"
        lines.append("textdoc " + es(html) + " " + eopt(ph_arg) + " " + ("N" if given is None else "D " + elist([e_sdep(d) for d in given])) + " " + table)
        n_ph[min(html.count(ph) if ph else 2, 2)] += 1
    impl = core.impl_many(lines)
    for l, im in zip(lines, impl):
        ck.add(l, im, nontrivial=True, tag="textdoc")
    ck.extra_cov["placeholder_occurrences"] = {"0": n_ph[0], "1": n_ph[1], ">=2": n_ph[2]}

    # ---------------- 5. JSON render mode, and JSON mode fed back to HTMLTextDocument
    lines = []
    for _ in range(ck.budget(500, 10000)):
        names = iter(rng.sample(["a", "b", "c", "d", "</SCRIPT>", "é", 'q"'], 4))

        def tree(depth):
            kids = []
            for _ in range(rng.randint(0, 3)):
                r = rng.random()
                if r < 0.3:
                    nm = next(names, None)
                    if nm is not None:
                        hk = [gen.rand_node(rng, 1, leaves=("text", "html")) for _ in range(rng.randint(0, 2))]
                        if rng.random() < 0.3:
                            # a dependency inside the head (directly or below a tag): invisible in the head's markup in every mode
                            inner = ("dep", rand_info(rng, name="in-" + nm, tame=True), False, [])
                            hk.insert(rng.randint(0, len(hk)), inner if rng.random() < 0.5 else ("tag", "link", True, [("href", ("p", "i.css"))], [inner]))
                        kids.append(("dep", rand_info(rng, name=nm), True if any(k[0] in ("dep", "tag") for k in hk) else rng.random() < 0.7, hk))
                        continue
                if r < 0.6 and depth > 0:
                    kids.append(tree(depth - 1))
                else:
                    kids.append(gen.rand_node(rng, 0, leaves=("text", "html", "meta")))
            nm, ws = gen.rand_name(rng)
            return ("tag", nm if nm not in gen.RAW else "div", ws, [], kids)
        t = tree(2)
        lines.append("jsonmode " + enode(t))
        lines.append("jmrt " + enode(t))
    impl = core.impl_many(lines)
    if htmltools.html_dependency_render_mode != "invisible":
        raise core.Infra("html_dependency_render_mode was not restored")
    for l, im in zip(lines, impl):
        ck.add(l, im, nontrivial=" dep " in l, tag=l.split(" ", 1)[0])

    # JSON-mode output of the real code, embedded in other text, through the real extraction and the model's
    lines2 = []
    for l, im in zip(lines, impl):
        if l.startswith("jsonmode ") and im.startswith("ok ") and len(lines2) < ck.budget(200, 4000):
            lines2.append("extract_html " + es(rand_chunk(rng) + p_str(Toks(im[3:])) + rand_chunk(rng)))
    impl2 = core.impl_many(lines2)
    for l, im in zip(lines2, impl2):
        ck.add(l, im, nontrivial=True, tag="extract_html")

    import srctie_c08       # `str.replace` as stated in Py/PrimC08.lean (Props/SrcNeutralise.lean) against the interpreter
    repl = srctie_c08.replace_lines(rng, 300 if tier == "quick" else 3000)
    ck.src_lines += list(zip(repl, core.impl_many(repl)))
    __import__("srctie_c13").add_src_c13(ck)       # Props/SrcC13.lean: the regenerated extraction / __init__ / render / serialize and Py/PrimC13.lean against the interpreter
    ck.extra_cov["reparse_histories"] = reparse_oracle(ck)
    ck.extra_cov["unterminated_open_cases"] = unterminated_oracle(ck, ck.rng)
    ck.extra_cov["extraction_pattern_located_in_source"] = ops_json.PATTERN_LOCATED
    ck.correspond(holds=True)

    # ---------------- 6. same markup as HTMLDocument puts in <head> (Python-side, both real)
    n_same = 0
    for _ in range(ck.budget(150, 3000)):
        # pairwise distinct names: HTMLDocument resolves to one dependency per name first (C10), HTMLTextDocument takes the list as given
        deps = [ops_json.realize_sdep(rand_sdep(rng, tame=True, name=nm)) for nm in rng.sample(["a", "b", "</SCRIPT>", "é"], rng.randint(0, 3))]
        kw = dict(lib_prefix=rng.choice(["lib", None, "x/y"]), include_version=rng.random() < 0.5)
        try:
            txt = HTMLTextDocument("PH", list(deps), "PH").render(**kw)["html"]
            hoisted = HTMLDocument._hoist_head_content(Tag("html", Tag("head"), *deps), kw["lib_prefix"], kw["include_version"])
            head = [c for c in hoisted.children if isinstance(c, Tag) and c.name == "head"][0]
            want = TagList(*head.children[1:]).get_html_string()       # after <meta charset>
        except Exception as e:  # noqa: BLE001
            # the real code raised on a well-formed input: that is a failure of the statement, not of the harness
            ck.holds_checked += 1
            ck.py_violation("same_as_document " + repr([canon(d) for d in deps])[:300], f"raised {type(e).__name__}: {e}",
                            f"rendering well-formed dependencies raised {type(e).__name__}: {e}",
                            py=f"deps={[ops_json.canon_sdep(d) for d in deps]!r}; kwargs={kw!r}")
            continue
        n_same += 1
        ck.holds_checked += 1
        if txt != want:
            ck.py_violation("same_as_document " + repr([canon(d) for d in deps])[:300], txt,
                            f"HTMLTextDocument.render() inserts {txt[:200]!r} but HTMLDocument hoists {want[:200]!r} for the same dependencies",
                            py=f"deps={[ops_json.canon_sdep(d) for d in deps]!r}; kwargs={kw!r}")
    ck.extra_cov["same_as_document_cases"] = n_same
    ck.extra_cov["extra_evaluations"] = n_same
    ck.extra_cov["partial_obligations"] = [
        "HtmlVerif.C13.C13_same_as_document_partial: proved relative to `hoisted = headNodes asTags` (the Document / DepTags models live in "
        "other branches); on the real code HTMLTextDocument.render() is compared with HTMLDocument._hoist_head_content directly "
        "(same_as_document_cases)",
    ]
    ck.assumptions = [
        "text chunks around serialised copies contain no OPEN marker (the property's own guard); fields are strings over Unicode scalar values",
        "the lazy regex is the leftmost-OPEN / first-CLOSE search (compared with `re` on every scan case)",
        "C13_same_as_document / per-dependency markup are relative to as_html_tags (run-time parameter here; model in another branch)",
        "observed and documented, not claimed either way: after extraction of JSON-mode output the text keeps the n-1 newlines that joined the copies",
    ]
    return ck.finish(matchers=MATCHERS, shrink=shrink)


MATCHERS = {}
