/-
C08 — Rendering and tagify are pure and consistent; tagify returns an independent copy.
This file: the equality clause (`==`).  The purity / independence clauses follow below (identity layer).
-/
import HtmlVerif.Spec.Equality
import HtmlVerif.Lemmas.Equality

namespace HtmlVerif.C08
open HtmlVerif

mutual
  /-- `==` is true for structurally identical objects -/
  theorem C08_eq_refl (n : Node) (h : n.Plain) : n.eqv n = true := by
    cases h with
    | tag ha hk => simp [Node.eqv, attrsEqv_refl _ ha, C08_eq_refl_kids _ hk]
    | text => simp [Node.eqv]
    | html => simp [Node.eqv]
    | robj => simp [Node.eqv]
    | mnode => simp [Node.eqv]
    | dep hd hk =>
      obtain ⟨h1, h2, h3⟩ := hd
      simp [Node.eqv, depInfoEqv, sourceEqv_refl, kvDictsEqv_refl _ h1, kvDictsEqv_refl _ h2,
        kvDictsEqv_refl _ h3, C08_eq_refl_kids _ hk]
  theorem C08_eq_refl_kids (ks : Nodes) (h : ks.PlainKids) : ks.eqvKids ks = true := by
    cases h with
    | nil => rfl
    | cons hh ht => simp [Nodes.eqvKids, C08_eq_refl _ hh, C08_eq_refl_kids _ ht]
end

/-- `==` is false for objects of different kinds -/
theorem C08_eq_kind (a b : Node) (h : a.eqv b = true) : a.kind = b.kind := by
  cases a <;> cases b <;> simp_all [Node.eqv, Node.kind]

/-- equal tags have the same name, the same whitespace flag, the same set of attributes with the same
    values (as text), and the same number of children, pairwise equal -/
theorem C08_eq_tag (n n' : Str) (w w' : Bool) (a a' : Attrs) (k k' : Nodes)
    (h : (Node.tag n w a k).eqv (.tag n' w' a' k') = true) :
    n = n' ∧ w = w' ∧ a.length = a'.length ∧
    (∀ kv ∈ a, ∃ v, alookup kv.1 a' = some v ∧ kv.2.str = v.str) ∧ k.eqvKids k' = true := by
  simp only [Node.eqv, Bool.and_eq_true, beq_iff_eq, attrsEqv, List.all_eq_true] at h
  obtain ⟨⟨⟨hn, hw⟩, hl, hall⟩, hk⟩ := h
  refine ⟨hn, hw, hl, ?_, hk⟩
  intro kv hm
  have := hall kv hm
  cases hlk : alookup kv.1 a' with
  | none => simp [hlk] at this
  | some v => exact ⟨v, rfl, by simpa [hlk] using this⟩

/-- equal child lists have the same length and are equal position by position -/
theorem C08_eq_kids_length (k k' : Nodes) (h : k.eqvKids k' = true) : k.length = k'.length := by
  induction k using Nodes.rec (motive_1 := fun _ => True) generalizing k' with
  | nil => cases k' <;> simp_all [Nodes.eqvKids, Nodes.length]
  | cons x t _ ih =>
    cases k' with
    | nil => simp [Nodes.eqvKids] at h
    | cons y u =>
      simp only [Nodes.eqvKids, Bool.and_eq_true] at h
      simp [Nodes.length, ih u h.2]
  | _ => trivial

theorem C08_eq_kids_head (x y : Node) (t u : Nodes) (h : (Nodes.cons x t).eqvKids (.cons y u) = true) :
    x.eqv y = true ∧ t.eqvKids u = true := by
  simpa [Nodes.eqvKids] using h

/-- text children are compared by their text (`'a'` and `HTML('a')` are the same text) -/
theorem C08_eq_text (a b : Node) (s t : Str) (ha : a.leafText? = some s) (hb : b.leafText? = some t) :
    a.eqv b = (s == t) := by
  cases a <;> cases b <;> simp_all [Node.leafText?, Node.eqv]

/-- any difference in tag name, whitespace flag, attribute set or values, child count, or a child makes `==` false -/
theorem C08_eq_differs (n n' : Str) (w w' : Bool) (a a' : Attrs) (k k' : Nodes)
    (h : n ≠ n' ∨ w ≠ w' ∨ a.length ≠ a'.length ∨ (∃ kv ∈ a, ∀ v, alookup kv.1 a' = some v → kv.2.str ≠ v.str)
      ∨ k.length ≠ k'.length ∨ k.eqvKids k' = false) :
    (Node.tag n w a k).eqv (.tag n' w' a' k') = false := by
  cases hq : (Node.tag n w a k).eqv (.tag n' w' a' k') with
  | false => rfl
  | true =>
    obtain ⟨h1, h2, h3, h4, h5⟩ := C08_eq_tag n n' w w' a a' k k' hq
    rcases h with h | h | h | ⟨kv, hm, hv⟩ | h | h
    · exact absurd h1 h
    · exact absurd h2 h
    · exact absurd h3 h
    · obtain ⟨v, hl, he⟩ := h4 kv hm; exact absurd he (hv v hl)
    · exact absurd (C08_eq_kids_length k k' h5) h
    · rw [h5] at h; cases h

/-- two dependencies are equal only if name, version (as a version number), source, script, stylesheet, meta,
    all_files agree and their heads are equal -/
theorem C08_eq_dep (d d' : DepInfo) (h h' : Bool) (k k' : Nodes)
    (he : (Node.dep d h k).eqv (.dep d' h' k') = true) :
    d.name = d'.name ∧ d.vrank = d'.vrank ∧ d.allFiles = d'.allFiles ∧ h = h' ∧ k.eqvKids k' = true := by
  simp only [Node.eqv, depInfoEqv, Bool.and_eq_true, beq_iff_eq] at he
  exact ⟨he.1.1.1.1.1.1.1.1, he.1.1.1.1.1.1.1.2, he.1.1.2, he.1.2, he.2⟩

example : (Node.tag ['a'] true [(['i'], .plain ['x'])] (.cons (.text ['t']) .nil)).Plain :=
  .tag (by simp [keysNodup]) (.cons .text .nil)

end HtmlVerif.C08
