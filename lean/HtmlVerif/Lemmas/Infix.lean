namespace HtmlVerif

theorem infix_app_left {α} {a b : List α} (c : List α) (h : a <:+: b) : a <:+: b ++ c := by
  obtain ⟨s, t, rfl⟩ := h
  exact ⟨s, t ++ c, by simp⟩

theorem infix_app_right {α} {a c : List α} (b : List α) (h : a <:+: c) : a <:+: b ++ c := by
  obtain ⟨s, t, rfl⟩ := h
  exact ⟨b ++ s, t, by simp⟩

theorem infix_cons_right {α} {a c : List α} (x : α) (h : a <:+: c) : a <:+: x :: c :=
  infix_app_right [x] h

theorem infix_self_app {α} (a b : List α) : a <:+: a ++ b := ⟨[], b, by simp⟩

theorem infix_app_self {α} (a b : List α) : b <:+: a ++ b := ⟨a, [], by simp⟩

theorem infix_mid {α} (a b c : List α) : b <:+: a ++ b ++ c := ⟨a, c, rfl⟩

theorem infix_trans' {α} {a b c : List α} (h₁ : a <:+: b) (h₂ : b <:+: c) : a <:+: c :=
  List.IsInfix.trans h₁ h₂

end HtmlVerif
